#!/bin/bash
# Determinism self-test: every engine/property runs the same seeds twice in fresh processes,
# once with 1 worker and once with 16 (and once more with another VERIF_SEED to make sure the
# seed is what decides), and the per-run event-log fingerprints must be identical.
# exit 0 = deterministic; exit 2 = harness error (nondeterminism detected).
set -u
cd "$(dirname "$0")"
ROOT="$(pwd)"
N="${SELFTEST_RUNS:-4000}"
TMP="$(mktemp -d /var/tmp/verif-selftest.XXXXXX)"
trap 'rm -rf "$TMP"' EXIT
fail=0
# build from /repo's current tree first (the binaries may be stale)
(cd "$ROOT/sim" && CARGO_NET_OFFLINE=true RUSTFLAGS="--cfg concordium_base_verif" cargo build --release --offline -q --workspace --exclude trieshuttle) || { echo "selftest: build failed"; exit 2; }
run() { # engine property scale
  local E="$1" P="$2" S="$3"
  for w in 1 16; do
    VERIF_SCALE="$S" VERIF_NO_REPLAY_CONFIRM=1 "$ROOT/sim/target/release/$E" --property "$P" --root "$ROOT" --no-evidence \
       --workers $w --dump-fingerprints "$TMP/$P-$E-$w.fp" >/dev/null 2>"$TMP/err" || { [ $? -eq 1 ] || { echo "selftest: $E $P failed to run"; cat "$TMP/err" | tail -3; fail=1; }; }
  done
  if ! cmp -s "$TMP/$P-$E-1.fp" "$TMP/$P-$E-16.fp"; then
    echo "NONDETERMINISM: $E $P fingerprints differ between 1 and 16 workers"; diff "$TMP/$P-$E-1.fp" "$TMP/$P-$E-16.fp" | head -5; fail=1
  else
    echo "selftest: $E $P $(wc -l < "$TMP/$P-$E-1.fp") runs, fingerprints identical (1 vs 16 workers, fresh processes)"
  fi
}
run triesim C03 0.002
run triesim C04 0.003
run chainsim C15 0.002
run streamsim C05 0.003
run streamsim C16 0.0002
run streamsim C17 0.001
run chainsim C13 0.003
run chainsim C02 0.008
run chainsim C14 0.015
[ $fail -eq 0 ] || exit 2
echo "selftest ok"
