#!/bin/bash
# Builds the simulators from files on disk only (offline) against /repo's
# current working tree with the verification hooks enabled.
set -eu
cd "$(dirname "$0")"
export CARGO_NET_OFFLINE=true
export RUSTFLAGS="--cfg concordium_base_verif"
mkdir -p evidence replays sim/target
(cd sim && cargo build --release --offline --workspace 2>&1 | tail -n 3)
(cd sim && cargo test --release --offline -q -p triesim --lib 2>&1 | tail -n 3)
echo "setup ok"
