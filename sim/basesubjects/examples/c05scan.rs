//! Development aid: runs the C05 stream plans of `codeccore::exec` over the
//! base subjects and prints every distinct violation signature with a count
//! and its first occurrence (the batch driver reports at most 8 signatures).
//!
//!   c05scan [runs] [threads] [only-subject-substring]
use codeccore::exec;
use simcore::{Recorder, Rng};
use std::{
    collections::BTreeMap,
    panic::{catch_unwind, AssertUnwindSafe},
    sync::Mutex,
};

#[global_allocator]
static ALLOC: simcore::alloc::CountingAlloc = simcore::alloc::CountingAlloc;

fn main() {
    let args: Vec<String> = std::env::args().collect();
    let runs: u64 = args.get(1).and_then(|s| s.parse().ok()).unwrap_or(200_000);
    let threads: u64 = args.get(2).and_then(|s| s.parse().ok()).unwrap_or(8);
    let only = args.get(3).cloned();
    let t = std::time::Instant::now();
    basesubjects::pool::force_all();
    eprintln!("pools: {:?}", t.elapsed());
    let mut subjects = basesubjects::base_subjects();
    if let Some(o) = &only {
        subjects.retain(|s| s.name.contains(o.as_str()));
    }
    eprintln!("{} subjects", subjects.len());
    std::panic::set_hook(Box::new(|_| {}));
    let found: Mutex<BTreeMap<String, (u64, u64, String)>> = Mutex::new(BTreeMap::new());
    let subjects = &subjects;
    let found_ref = &found;
    std::thread::scope(|sc| {
        for th in 0..threads {
            sc.spawn(move || {
                let mut i = th;
                while i < runs {
                    let seed = simcore::rng::run_seed(0xC05C05, "C05", "scan", i);
                    let plan = exec::generate(&mut Rng::new(seed), subjects);
                    let mut rec = Recorder::new();
                    let r = catch_unwind(AssertUnwindSafe(|| exec::execute(&plan, subjects, &mut rec)));
                    let v = match r {
                        Ok(None) => None,
                        Ok(Some(v)) => {
                            // for the two big sum types, split by the tag of the undamaged value
                            let tag = if plan.subject == "Payload" || plan.subject == "UpdatePayload" {
                                let s = subjects.iter().find(|s| s.name == plan.subject).unwrap();
                                format!(" [tag of undamaged value: {}]", (s.gen_encode)(plan.value_seed)[0])
                            } else {
                                String::new()
                            };
                            Some((format!("{} :: {}{}", v.oracle, v.signature, tag), v.detail))
                        }
                        Err(e) => {
                            let msg = e
                                .downcast_ref::<String>()
                                .cloned()
                                .or_else(|| e.downcast_ref::<&str>().map(|s| s.to_string()))
                                .unwrap_or_else(|| "?".into());
                            let short: String = msg.chars().take(100).collect();
                            Some((format!("panic :: {} :: {}", plan.subject, short), format!("{:?}", plan.mode)))
                        }
                    };
                    if let Some((sig, detail)) = v {
                        let mut f = found_ref.lock().unwrap();
                        let e = f.entry(sig).or_insert((0, i, detail.chars().take(400).collect()));
                        e.0 += 1;
                    }
                    i += threads;
                }
            });
        }
    });
    let f = found.lock().unwrap();
    for (sig, (n, first, detail)) in f.iter() {
        println!("{:7}x first@{:<8} {}\n          {}", n, first, sig, detail);
    }
    println!("{} distinct signatures in {} runs, {:?}", f.len(), runs, t.elapsed());
}
