//! `base.rs`, `common/types.rs`, `hashes.rs`, `smart_contracts.rs` and
//! `protocol_level_tokens` leaf types.
use crate::util::*;
use codeccore::Subject;
use concordium_base::{
    base::*,
    common::types::{
        AccountAddress, Amount, CredentialIndex, KeyIndex, KeyPair, Ratio, Signature, Timestamp, TransactionSignature,
        TransactionSignaturesV1, TransactionTime,
    },
    constants::*,
    contracts_common::{
        self as cc, AccountThreshold, Address, ContractAddress, Duration, ExchangeRate, ModuleReference, OwnedContractName,
        OwnedParameter, OwnedReceiveName, SignatureThreshold,
    },
    hashes,
    id::types::VerifyKey,
    protocol_level_tokens::{RawCbor, TokenId, TokenModuleRef},
    smart_contracts::{ModuleSource, WasmModule, WasmVersion},
    transactions::PayloadSize,
};
use simcore::Rng;
use std::collections::BTreeMap;

fn gcd(mut a: u64, mut b: u64) -> u64 {
    while b != 0 {
        let t = a % b;
        a = b;
        b = t;
    }
    a
}

/// A reduced pair (n, d) with d != 0.
pub fn g_reduced(rng: &mut Rng, n_nonzero: bool) -> (u64, u64) {
    let mut n = match rng.below(6) {
        0 => 0,
        1 => 1,
        2 => u64::MAX,
        3 => rng.below(1000),
        _ => rng.next_u64(),
    };
    let mut d = match rng.below(6) {
        0 => 1,
        1 => u64::MAX,
        2 => 2,
        3 => rng.below(1000) + 1,
        _ => rng.next_u64().max(1),
    };
    if n_nonzero && n == 0 {
        n = 1;
    }
    let g = gcd(n, d);
    if g > 1 {
        n /= g;
        d /= g;
    }
    (n, d)
}

pub fn g_amount(rng: &mut Rng) -> Amount { Amount::from_micro_ccd(g_u64(rng)) }
pub fn g_energy(rng: &mut Rng) -> Energy { Energy::from(g_u64(rng)) }
pub fn g_nonce(rng: &mut Rng) -> Nonce { Nonce::from(g_u64(rng)) }
pub fn g_tx_time(rng: &mut Rng) -> TransactionTime { TransactionTime::from_seconds(g_u64(rng)) }
pub fn g_timestamp(rng: &mut Rng) -> Timestamp { Timestamp::from_timestamp_millis(g_u64(rng)) }
pub fn g_account_address(rng: &mut Rng) -> AccountAddress { AccountAddress(g_arr::<32>(rng)) }
pub fn g_contract_address(rng: &mut Rng) -> ContractAddress { ContractAddress::new(g_u64(rng), g_u64(rng)) }
pub fn g_baker_id(rng: &mut Rng) -> BakerId { BakerId::from(AccountIndex::from(g_u64(rng))) }
pub fn g_cred_index(rng: &mut Rng) -> CredentialIndex { CredentialIndex { index: g_u8(rng) } }
pub fn g_key_index(rng: &mut Rng) -> KeyIndex { KeyIndex(g_u8(rng)) }

pub fn g_threshold_u8(rng: &mut Rng) -> u8 {
    match rng.below(5) {
        0 => 1,
        1 => 255,
        2 => 2,
        _ => rng.range(1, 255) as u8,
    }
}
pub fn g_account_threshold(rng: &mut Rng) -> AccountThreshold { AccountThreshold::try_from(g_threshold_u8(rng)).unwrap() }
pub fn g_signature_threshold(rng: &mut Rng) -> SignatureThreshold {
    SignatureThreshold::try_from(g_threshold_u8(rng)).unwrap()
}

pub fn g_parts(rng: &mut Rng) -> u32 {
    match rng.below(6) {
        0 => 0,
        1 => 100_000,
        2 => 1,
        3 => 99_999,
        _ => rng.range(0, 100_000) as u32,
    }
}
pub fn g_amount_fraction(rng: &mut Rng) -> AmountFraction { AmountFraction::new(g_parts(rng)).unwrap() }
pub fn g_pphk(rng: &mut Rng) -> PartsPerHundredThousands { PartsPerHundredThousands::new(g_parts(rng)).unwrap() }

/// Two fractions summing to at most 100%.
pub fn g_fraction_pair(rng: &mut Rng) -> (AmountFraction, AmountFraction) {
    let a = g_parts(rng);
    let b = match rng.below(4) {
        0 => 100_000 - a,
        1 => 0,
        _ => rng.range(0, (100_000 - a) as u64) as u32,
    };
    (AmountFraction::new(a).unwrap(), AmountFraction::new(b).unwrap())
}

pub fn g_range(rng: &mut Rng) -> InclusiveRange<AmountFraction> {
    let a = g_parts(rng);
    let b = g_parts(rng);
    let (lo, hi) = if rng.chance(1, 5) { (a, a) } else { (a.min(b), a.max(b)) };
    InclusiveRange {
        min: AmountFraction::new(lo).unwrap(),
        max: AmountFraction::new(hi).unwrap(),
    }
}

pub fn g_commission_ranges(rng: &mut Rng) -> CommissionRanges {
    CommissionRanges {
        finalization: g_range(rng),
        baking:       g_range(rng),
        transaction:  g_range(rng),
    }
}

pub fn g_commission_rates(rng: &mut Rng) -> CommissionRates {
    CommissionRates {
        finalization: g_amount_fraction(rng),
        baking:       g_amount_fraction(rng),
        transaction:  g_amount_fraction(rng),
    }
}

pub fn g_mint_rate(rng: &mut Rng) -> MintRate {
    MintRate {
        mantissa: g_u32(rng),
        exponent: g_u8(rng),
    }
}

pub fn g_exchange_rate(rng: &mut Rng) -> ExchangeRate {
    let (n, d) = g_reduced(rng, true);
    ExchangeRate::new(n, d).expect("reduced, non-zero")
}

pub fn g_leverage(rng: &mut Rng) -> LeverageFactor {
    if rng.chance(1, 4) {
        return LeverageFactor::new_integral(g_u64(rng).max(1));
    }
    let (a, b) = g_reduced(rng, true);
    let (n, d) = if a >= b { (a, b) } else { (b, a) };
    LeverageFactor::new(n, d).expect("n >= d, reduced")
}

pub fn g_ratio(rng: &mut Rng) -> Ratio {
    let (n, d) = g_reduced(rng, false);
    Ratio::new(n, d).expect("reduced")
}

pub fn g_url(rng: &mut Rng) -> UrlText {
    let s = if rng.chance(1, 10) {
        crate::prims::g_string_exact(rng, MAX_URL_TEXT_LENGTH)
    } else {
        g_string(rng, 80)
    };
    UrlText::try_from(s).expect("within limit")
}

pub fn g_open_status(rng: &mut Rng) -> OpenStatus {
    *rng.pick(&[OpenStatus::OpenForAll, OpenStatus::ClosedForNew, OpenStatus::ClosedForAll])
}

pub fn g_delegation_target(rng: &mut Rng) -> DelegationTarget {
    if rng.chance(1, 3) {
        DelegationTarget::Passive
    } else {
        DelegationTarget::Baker {
            baker_id: g_baker_id(rng),
        }
    }
}

pub fn g_protocol_version(rng: &mut Rng) -> ProtocolVersion {
    ProtocolVersion::try_from(rng.range(1, 10)).expect("known version")
}

pub fn g_update_threshold(rng: &mut Rng, max: u16) -> UpdateKeysThreshold {
    let t = match rng.below(4) {
        0 => 1,
        1 => max,
        _ => rng.range(1, max as u64) as u16,
    };
    UpdateKeysThreshold::try_from(t).expect("non-zero")
}

pub fn g_keypair(rng: &mut Rng) -> KeyPair { KeyPair::generate(&mut std_rng(rng)) }

pub fn g_ed25519_vk(rng: &mut Rng) -> ed25519_dalek::VerifyingKey { g_keypair(rng).public() }

pub fn g_verify_key(rng: &mut Rng) -> VerifyKey { VerifyKey::from(g_ed25519_vk(rng)) }

pub fn g_update_public_key(rng: &mut Rng) -> UpdatePublicKey { UpdatePublicKey::from(&UpdateKeyPair::generate(&mut std_rng(rng))) }

/// A signature as it appears in transactions: any byte string up to 65535 bytes,
/// usually a 64 byte ed25519 signature.
pub fn g_signature(rng: &mut Rng) -> Signature {
    match rng.below(8) {
        0 => Signature { sig: Vec::new() },
        1 => Signature {
            sig: rng.bytes(65535),
        },
        2 => Signature { sig: g_bytes(rng, 100) },
        3 => Signature::from(g_keypair(rng).sign(&rng.bytes(8))),
        _ => Signature { sig: rng.bytes(64) },
    }
}

/// Small signature (keeps aggregate values small).
pub fn g_signature_small(rng: &mut Rng) -> Signature {
    match rng.below(8) {
        0 => Signature { sig: Vec::new() },
        1 => Signature { sig: g_bytes(rng, 100) },
        _ => Signature { sig: rng.bytes(64) },
    }
}

pub fn g_tx_signature(rng: &mut Rng) -> TransactionSignature {
    // at least one credential, each with at least one signature; at most 255 of each
    let ncred = match rng.below(10) {
        0 => 255,
        1 => 2,
        2 => 3,
        _ => 1,
    };
    let creds = distinct_sorted(rng, ncred, 255);
    let many = creds.len() > 10;
    let mut signatures = BTreeMap::new();
    for c in creds {
        let nkeys = if many {
            1
        } else {
            match rng.below(10) {
                0 => 255,
                1 => 2,
                2 => 3,
                _ => 1,
            }
        };
        let keys = distinct_sorted(rng, nkeys, 255);
        let big = keys.len() > 10;
        let mut m = BTreeMap::new();
        for k in keys {
            let sig = if big { Signature { sig: rng.bytes(2) } } else { g_signature_small(rng) };
            m.insert(KeyIndex(k as u8), sig);
        }
        signatures.insert(CredentialIndex { index: c as u8 }, m);
    }
    TransactionSignature { signatures }
}

pub fn g_tx_signatures_v1(rng: &mut Rng) -> TransactionSignaturesV1 {
    TransactionSignaturesV1 {
        sender:  g_tx_signature(rng),
        sponsor: if rng.coin() { Some(g_tx_signature(rng)) } else { None },
    }
}

pub fn g_payload_size(rng: &mut Rng) -> PayloadSize {
    PayloadSize::from(match rng.below(5) {
        0 => 0,
        1 => MAX_PAYLOAD_SIZE,
        2 => 1,
        _ => rng.range(0, MAX_PAYLOAD_SIZE as u64) as u32,
    })
}

const NAME_CHARS: &[u8] = b"abcXYZ019_-!#$%&'()*+,/:;<=>?@[]^`{|}~\\\"";

fn g_name_part(rng: &mut Rng, len: usize) -> String {
    (0..len).map(|_| *rng.pick(NAME_CHARS) as char).collect()
}

pub fn g_contract_name(rng: &mut Rng) -> OwnedContractName {
    let max = cc::constants::MAX_FUNC_NAME_SIZE - 5;
    let n = g_len(rng, max);
    OwnedContractName::new(format!("init_{}", g_name_part(rng, n))).expect("valid contract name")
}

pub fn g_receive_name(rng: &mut Rng) -> OwnedReceiveName {
    let max = cc::constants::MAX_FUNC_NAME_SIZE - 1;
    let total = g_len(rng, max);
    let a = rng.urange(0, total);
    let s = format!("{}.{}", g_name_part(rng, a), g_name_part(rng, total - a));
    OwnedReceiveName::new(s).expect("valid receive name")
}

pub fn g_parameter(rng: &mut Rng) -> OwnedParameter {
    let bytes = match rng.below(12) {
        0 => rng.bytes(65535),
        1 => Vec::new(),
        _ => g_bytes(rng, 64),
    };
    OwnedParameter::try_from(bytes).expect("within limit")
}

pub fn g_module_ref(rng: &mut Rng) -> ModuleReference { ModuleReference::from(g_arr::<32>(rng)) }

pub fn g_wasm_version(rng: &mut Rng) -> WasmVersion { if rng.coin() { WasmVersion::V0 } else { WasmVersion::V1 } }

pub fn g_module_source(rng: &mut Rng) -> ModuleSource {
    let bytes = match rng.below(40) {
        0 => rng.bytes(MAX_WASM_MODULE_SIZE as usize),
        1 => rng.bytes(5000),
        _ => g_bytes(rng, 80),
    };
    ModuleSource::from(bytes)
}

pub fn g_wasm_module(rng: &mut Rng) -> WasmModule {
    WasmModule {
        version: g_wasm_version(rng),
        source:  g_module_source(rng),
    }
}

const TOKEN_CHARS: &[u8] = b"abcdefghijklmnopqrstuvwxyzABCDEFGHIJKLMNOPQRSTUVWXYZ0123456789-.%";

pub fn g_token_id(rng: &mut Rng) -> TokenId {
    let n = match rng.below(5) {
        0 => 1,
        1 => 128,
        _ => rng.urange(1, 128),
    };
    let s: String = (0..n).map(|_| *rng.pick(TOKEN_CHARS) as char).collect();
    TokenId::try_from(s).expect("valid token id")
}

pub fn g_raw_cbor(rng: &mut Rng) -> RawCbor {
    let bytes = match rng.below(10) {
        0 => Vec::new(),
        1 => vec![0xa0],
        2 => rng.bytes(5000),
        _ => g_bytes(rng, 64),
    };
    RawCbor::from(bytes)
}

pub fn g_hash<M>(rng: &mut Rng) -> hashes::HashBytes<M> { hashes::HashBytes::new(g_arr::<32>(rng)) }

macro_rules! newtype_u64 {
    ($v:ident, $name:expr, $t:ty) => {
        subj!($v, $name, $t, |rng| <$t>::from(g_u64(rng)));
    };
}

pub fn subjects(v: &mut Vec<Subject>) {
    // --- common/types.rs -----------------------------------------------------
    subj!(v, "common::types::Amount", Amount, g_amount);
    subj!(v, "common::types::KeyIndex", KeyIndex, g_key_index);
    subj!(v, "common::types::CredentialIndex", CredentialIndex, g_cred_index);
    subj!(v, "common::types::AccountAddress", AccountAddress, g_account_address);
    subj!(v, "common::types::ContractAddress", ContractAddress, g_contract_address);
    subj!(v, "common::types::Address", Address, |rng| if rng.coin() {
        Address::Account(g_account_address(rng))
    } else {
        Address::Contract(g_contract_address(rng))
    });
    subj!(v, "common::types::Timestamp", Timestamp, g_timestamp);
    subj!(v, "common::types::TransactionTime", TransactionTime, g_tx_time);
    subj!(v, "common::types::Ratio", Ratio, g_ratio);
    subj!(v, "common::types::Signature", Signature, g_signature);
    subj!(v, "common::types::TransactionSignature", TransactionSignature, g_tx_signature);
    subj!(v, "common::types::TransactionSignaturesV1", TransactionSignaturesV1, g_tx_signatures_v1);
    subj!(v, "common::types::OwnedContractName", OwnedContractName, g_contract_name);
    subj!(v, "common::types::OwnedReceiveName", OwnedReceiveName, g_receive_name);
    subj!(v, "common::types::OwnedParameter", OwnedParameter, g_parameter);
    subj!(v, "common::ExchangeRate", ExchangeRate, g_exchange_rate);
    subj!(v, "common::Duration", Duration, |rng| Duration::from_millis(g_u64(rng)));
    subj!(v, "common::AccountThreshold", AccountThreshold, g_account_threshold);
    subj!(v, "common::SignatureThreshold", SignatureThreshold, g_signature_threshold);
    subj!(v, "ed25519_dalek::VerifyingKey", ed25519_dalek::VerifyingKey, g_ed25519_vk);
    // `ed25519_dalek::SigningKey`: `Serial` writes the 32 byte secret, `Deserial` reads a 64 byte key
    // pair, so it never round-trips. It is a secret key that is never part of a chain type, so it is
    // not a C05 subject (recorded as observation OB4 in DESIGN.md).
    subj!(v, "ed25519_dalek::Signature", ed25519_dalek::Signature, |rng| {
        if rng.chance(1, 4) {
            ed25519_dalek::Signature::from_bytes(&g_arr::<64>(rng))
        } else {
            g_keypair(rng).sign(&rng.bytes(16))
        }
    });
    // --- hashes.rs -----------------------------------------------------------
    subj!(v, "hashes::BlockHash", hashes::BlockHash, g_hash::<hashes::BlockMarker>);
    subj!(v, "hashes::TransactionHash", hashes::TransactionHash, g_hash::<hashes::TransactionMarker>);
    subj!(v, "hashes::TransactionSignHash", hashes::TransactionSignHash, g_hash::<hashes::TransactionSignMarker>);
    subj!(v, "hashes::UpdateSignHash", hashes::UpdateSignHash, g_hash::<hashes::UpdateSignMarker>);
    subj!(v, "hashes::StateHash", hashes::StateHash, g_hash::<hashes::StateMarker>);
    subj!(v, "hashes::LeadershipElectionNonce", hashes::LeadershipElectionNonce, g_hash::<hashes::ElectionNonceMarker>);
    subj!(v, "hashes::ModuleReference", ModuleReference, g_module_ref);
    // --- base.rs -------------------------------------------------------------
    newtype_u64!(v, "base::SlotDuration", SlotDuration);
    newtype_u64!(v, "base::DurationSeconds", DurationSeconds);
    subj!(v, "base::BakerId", BakerId, g_baker_id);
    subj!(v, "base::DelegatorId", DelegatorId, |rng| DelegatorId::from(AccountIndex::from(g_u64(rng))));
    newtype_u64!(v, "base::Slot", Slot);
    newtype_u64!(v, "base::Epoch", Epoch);
    newtype_u64!(v, "base::Round", Round);
    newtype_u64!(v, "base::Nonce", Nonce);
    newtype_u64!(v, "base::UpdateSequenceNumber", UpdateSequenceNumber);
    subj!(v, "base::CredentialsPerBlockLimit", CredentialsPerBlockLimit, |rng| CredentialsPerBlockLimit::from(g_u16(rng)));
    newtype_u64!(v, "base::BlockHeight", BlockHeight);
    subj!(v, "base::GenesisIndex", GenesisIndex, |rng| GenesisIndex::from(g_u32(rng)));
    newtype_u64!(v, "base::AbsoluteBlockHeight", AbsoluteBlockHeight);
    newtype_u64!(v, "base::AccountIndex", AccountIndex);
    newtype_u64!(v, "base::Energy", Energy);
    newtype_u64!(v, "base::FinalizationIndex", FinalizationIndex);
    subj!(v, "base::TransactionIndex", WD<TransactionIndex>, |rng| WD(TransactionIndex { index: g_u64(rng) }));
    subj!(v, "base::ProtocolVersion", ProtocolVersion, g_protocol_version);
    subj!(v, "base::UrlText", UrlText, g_url);
    subj!(v, "base::OpenStatus", OpenStatus, g_open_status);
    subj!(v, "base::DelegationTarget", DelegationTarget, g_delegation_target);
    subj!(v, "base::UpdatePublicKey", UpdatePublicKey, g_update_public_key);
    subj!(v, "base::UpdateKeysThreshold", UpdateKeysThreshold, |rng| g_update_threshold(rng, u16::MAX));
    subj!(v, "base::UpdateKeysIndex", UpdateKeysIndex, |rng| UpdateKeysIndex::from(g_u16(rng)));
    subj!(v, "base::ElectionDifficulty", ElectionDifficulty, |rng| ElectionDifficulty::new(g_parts(rng)).unwrap());
    subj!(v, "base::PartsPerHundredThousands", PartsPerHundredThousands, g_pphk);
    subj!(v, "base::AmountFraction", AmountFraction, g_amount_fraction);
    subj!(v, "base::CapitalBound", CapitalBound, |rng| CapitalBound {
        bound: g_amount_fraction(rng),
    });
    subj!(v, "base::CommissionRates", CommissionRates, g_commission_rates);
    subj!(v, "base::CommissionRanges", WD<CommissionRanges>, |rng| WD(g_commission_ranges(rng)));
    subj!(v, "base::InclusiveRange<AmountFraction>", InclusiveRange<AmountFraction>, g_range);
    subj!(v, "base::InclusiveRange<u64>", InclusiveRange<u64>, |rng| {
        let a = g_u64(rng);
        let b = g_u64(rng);
        InclusiveRange {
            min: a.min(b),
            max: a.max(b),
        }
    });
    subj!(v, "base::LeverageFactor", LeverageFactor, g_leverage);
    subj!(v, "base::MintRate", MintRate, g_mint_rate);
    subj!(v, "base::MintDistributionV0", WD<MintDistributionV0>, |rng| {
        let (a, b) = g_fraction_pair(rng);
        WD(MintDistributionV0 {
            mint_per_slot:       g_mint_rate(rng),
            baking_reward:       a,
            finalization_reward: b,
        })
    });
    subj!(v, "base::MintDistributionV1", WD<MintDistributionV1>, |rng| {
        let (a, b) = g_fraction_pair(rng);
        WD(MintDistributionV1 {
            baking_reward:       a,
            finalization_reward: b,
        })
    });
    // --- transactions.rs leaf ------------------------------------------------
    subj!(v, "transactions::PayloadSize", PayloadSize, g_payload_size);
    // --- smart_contracts.rs --------------------------------------------------
    subj!(v, "smart_contracts::WasmVersion", WasmVersion, g_wasm_version);
    subj!(v, "smart_contracts::ModuleSource", ModuleSource, g_module_source);
    subj!(v, "smart_contracts::WasmModule", WasmModule, g_wasm_module);
    // --- protocol_level_tokens ----------------------------------------------
    subj!(v, "protocol_level_tokens::TokenId", TokenId, g_token_id);
    subj!(v, "protocol_level_tokens::RawCbor", RawCbor, g_raw_cbor);
    subj!(v, "protocol_level_tokens::TokenModuleRef", TokenModuleRef, g_hash::<
        concordium_base::protocol_level_tokens::TokenModuleReferenceMarker,
    >);
}
