//! Deterministic variant of `concordium_base::id::account_holder::create_credential`.
//!
//! The upstream `create_unsigned_credential` draws its randomness from
//! `rand::thread_rng()`, so credentials produced by it differ from process to
//! process, and a replay of a recorded seed in a fresh process would see a
//! different value. The functions below are the upstream text of
//! `create_unsigned_credential` and its private helpers (`compute_pok_sig`,
//! `compute_commitments`, `compute_pok_reg_id`), built only from public items
//! of concordium_base, with the random source turned into a parameter. The
//! unit test `pool::tests::pooled_credentials_verify` checks with the upstream
//! `verify_cdi` that the credentials produced here are valid.
#![allow(clippy::too_many_arguments)]
use anyhow::{bail, ensure};
use concordium_base::{
    bulletproofs::range_proof::prove_less_than_or_equal,
    common::types::TransactionTime,
    contracts_common::AccountAddress,
    curve_arithmetic::{Curve, Field, Pairing},
    dodis_yampolskiy_prf as prf,
    id::{secret_sharing::*, types::*, utils, account_holder::compute_sharing_data},
    pedersen_commitment::{Commitment, CommitmentKey as PedersenKey, Randomness as PedersenRandomness, Value},
    random_oracle::{RandomOracle, TranscriptProtocol},
    sigma_protocols::{com_enc_eq, com_eq_sig, com_mult, common::*},
};
use rand::{CryptoRng, Rng};
use std::collections::{btree_map::BTreeMap, hash_map::HashMap, BTreeSet};

/// Deterministic `create_credential`.
pub fn create_credential_det<
    P: Pairing,
    C: Curve<Scalar = P::ScalarField>,
    AttributeType: Clone + Attribute<C::Scalar>,
    R: Rng + CryptoRng,
>(
    context: IpContext<'_, P, C>,
    id_object: &impl HasIdentityObjectFields<P, C, AttributeType>,
    id_object_use_data: &IdObjectUseData<P, C>,
    cred_counter: u8,
    policy: Policy<C, AttributeType>,
    cred_data: &impl CredentialDataWithSigning,
    secret_data: &impl HasAttributeRandomness<C>,
    new_or_existing: &either::Either<TransactionTime, AccountAddress>,
    csprng: &mut R,
) -> anyhow::Result<(CredentialDeploymentInfo<P, C, AttributeType>, CommitmentsRandomness<C>)> {
    let (unsigned_credential_info, commitments_randomness) = create_unsigned_credential(
        context,
        id_object,
        id_object_use_data,
        cred_counter,
        policy,
        cred_data.get_cred_key_info(),
        new_or_existing.as_ref().right(),
        secret_data,
        csprng,
    )?;
    let proof_acc_sk = AccountOwnershipProof {
        sigs: cred_data.sign(new_or_existing, &unsigned_credential_info),
    };
    let cdp = CredDeploymentProofs {
        id_proofs: unsigned_credential_info.proofs,
        proof_acc_sk,
    };
    let info = CredentialDeploymentInfo {
        values: unsigned_credential_info.values,
        proofs: cdp,
    };
    Ok((info, commitments_randomness))
}

#[allow(clippy::too_many_arguments)]
pub fn create_unsigned_credential<
    P: Pairing,
    C: Curve<Scalar = P::ScalarField>,
    AttributeType: Clone + Attribute<C::Scalar>,
    R: Rng + CryptoRng,
>(
    context: IpContext<'_, P, C>,
    id_object: &impl HasIdentityObjectFields<P, C, AttributeType>,
    id_object_use_data: &IdObjectUseData<P, C>,
    cred_counter: u8,
    policy: Policy<C, AttributeType>,
    cred_key_info: CredentialPublicKeys,
    addr: Option<&AccountAddress>,
    secret_data: &impl HasAttributeRandomness<C>,
    csprng: &mut R,
) -> anyhow::Result<(
    UnsignedCredentialDeploymentInfo<P, C, AttributeType>,
    CommitmentsRandomness<C>,
)> {
    let (ip_sig, prio, alist) = (
        id_object.get_signature(),
        id_object.get_common_pio_fields(),
        id_object.get_attribute_list(),
    );
    let sig_retrieval_rand = &id_object_use_data.randomness;
    let aci = &id_object_use_data.aci;

    let prf_key = &aci.prf_key;
    let id_cred_sec = &aci.cred_holder_info.id_cred.id_cred_sec;
    let cred_id_exponent = match aci.prf_key.prf_exponent(cred_counter) {
        Ok(exp) => exp,
        Err(_) => bail!(
            "Cannot create CDI with this account number because K + {} = 0.",
            cred_counter
        ),
    };

    // RegId as well as Prf key commitments must be computed
    // with the same generators as in the commitment key.
    let cred_id = context
        .global_context
        .on_chain_commitment_key
        .hide(
            &Value::<C>::new(cred_id_exponent),
            &PedersenRandomness::zero(),
        )
        .0;

    // Check that all the chosen identity providers (in the pre-identity object) are
    // available in the given context, and remove the ones that are not.
    let chosen_ars = {
        let mut chosen_ars = BTreeMap::new();
        for ar_id in prio.choice_ar_parameters.ar_identities.iter() {
            if let Some(info) = context.ars_infos.get(ar_id) {
                // FIXME: We could get rid of this clone if we passed in a map of references.
                let _ = chosen_ars.insert(*ar_id, info.clone()); // since we are
                                                                 // iterating over
                                                                 // a set, this
                                                                 // will always
                                                                 // be Some
            } else {
                bail!("Cannot find anonymity revoker {} in the context.", ar_id)
            }
        }
        chosen_ars
    };

    // sharing data for id cred sec
    let (id_cred_data, cmm_id_cred_sec_sharing_coeff, cmm_coeff_randomness) = compute_sharing_data(
        id_cred_sec,
        &chosen_ars,
        prio.choice_ar_parameters.threshold,
        &context.global_context.on_chain_commitment_key,
        &mut *csprng,
    );

    let number_of_ars = prio.choice_ar_parameters.ar_identities.len();
    // filling ar data
    let ar_data = id_cred_data
        .iter()
        .map(|item| {
            (
                item.ar.ar_identity,
                ChainArData {
                    enc_id_cred_pub_share: item.encrypted_share,
                },
            )
        })
        .collect::<BTreeMap<_, _>>();

    let ip_pub_key = &context.ip_info.ip_verify_key;

    // retrieve the signature on the underlying idcredsec + prf_key + attribute_list
    let retrieved_sig = ip_sig.retrieve(sig_retrieval_rand);

    // and then we blind the signature to disassociate it from the message.
    // only the second part is used (as per the protocol)
    let (blinded_sig, blind_rand) = retrieved_sig.blind(&mut *csprng);
    // We now compute commitments to all the items in the attribute list.
    // We use the on-chain pedersen commitment key.
    let (commitments, commitment_rands) = compute_commitments(
        &context.global_context.on_chain_commitment_key,
        alist,
        prf_key,
        cred_counter,
        &cmm_id_cred_sec_sharing_coeff,
        cmm_coeff_randomness,
        &policy,
        secret_data,
        &mut *csprng,
    )?;

    // We have all the values now.
    let cred_values = CredentialDeploymentValues {
        cred_id,
        threshold: prio.choice_ar_parameters.threshold,
        ar_data,
        ip_identity: context.ip_info.ip_identity,
        policy,
        cred_key_info,
    };

    // We now produce all the proofs.
    // Compute the challenge prefix by hashing the values.
    // FIXME: We should do something different here.
    // Eventually we'll have to include the genesis hash.
    #[allow(deprecated)]
    let mut ro = RandomOracle::domain("credential");
    ro.append_message(b"cred_values", &cred_values);
    ro.append_message(b"address", &addr);
    ro.append_message(b"global_context", &context.global_context);

    let mut id_cred_pub_share_numbers = Vec::with_capacity(number_of_ars);
    let mut id_cred_pub_provers = Vec::with_capacity(number_of_ars);
    let mut id_cred_pub_secrets = Vec::with_capacity(number_of_ars);

    // create provers for knowledge of id_cred_sec.
    for item in id_cred_data.iter() {
        let secret = com_enc_eq::ComEncEqSecret {
            value: item.share.clone(),
            elgamal_rand: item.encryption_randomness.clone(),
            pedersen_rand: item.randomness_cmm_to_share.clone(),
        };

        let item_prover = com_enc_eq::ComEncEq {
            cipher: item.encrypted_share,
            commitment: item.cmm_to_share,
            pub_key: item.ar.ar_public_key,
            cmm_key: context.global_context.on_chain_commitment_key,
            encryption_in_exponent_generator: item.ar.ar_public_key.generator,
        };

        id_cred_pub_share_numbers.push(item.ar.ar_identity);
        id_cred_pub_provers.push(item_prover);
        id_cred_pub_secrets.push(secret);
    }

    // Proof that the registration id is computed correctly from the prf key K and
    // the cred_counter x.
    let (prover_reg_id, secret_reg_id) = compute_pok_reg_id(
        &context.global_context.on_chain_commitment_key,
        prf_key.clone(),
        &commitments.cmm_prf,
        &commitment_rands.prf_rand,
        cred_counter,
        &commitments.cmm_cred_counter,
        &commitment_rands.cred_counter_rand,
        &commitment_rands.max_accounts_rand,
        cred_id_exponent,
        cred_id,
    );

    let choice_ar_handles = cred_values.ar_data.keys().copied().collect::<BTreeSet<_>>();

    // Proof of knowledge of the signature of the identity provider.
    let (prover_sig, secret_sig) = compute_pok_sig(
        &context.global_context.on_chain_commitment_key,
        &commitments,
        &commitment_rands,
        id_cred_sec,
        prf_key,
        alist,
        prio.choice_ar_parameters.threshold,
        &choice_ar_handles,
        ip_pub_key,
        &blinded_sig,
        blind_rand,
    )?;

    let prover = AndAdapter {
        first: prover_reg_id,
        second: prover_sig,
    };
    let prover = prover.add_prover(ReplicateAdapter {
        protocols: id_cred_pub_provers,
    });

    let secret = ((secret_reg_id, secret_sig), id_cred_pub_secrets);
    let proof = match prove(&mut ro, &prover, secret, &mut *csprng) {
        Some(x) => x,
        None => bail!("Cannot produce zero knowledge proof."),
    };

    let cred_counter_less_than_max_accounts = match prove_less_than_or_equal(
        &mut ro,
        &mut *csprng,
        8,
        u64::from(cred_counter),
        u64::from(alist.max_accounts),
        context.global_context.bulletproof_generators(),
        &context.global_context.on_chain_commitment_key,
        &commitment_rands.cred_counter_rand,
        &commitment_rands.max_accounts_rand,
    ) {
        Some(x) => x,
        None => bail!("Cannot produce proof that cred_counter <= max_accounts."),
    };

    // A list of signatures on the challenge used by the other proofs using the
    // credential keys.
    // The challenge has domain separator "credential" followed by appending all
    // values of the credential to the ro, specifically appending the
    // CredentialDeploymentValues struct.
    //
    // The domain seperator in combination with appending all the data of the
    // credential deployment should make it non-reusable.

    let id_proofs = IdOwnershipProofs {
        sig: blinded_sig,
        commitments,
        challenge: proof.challenge,
        proof_id_cred_pub: id_cred_pub_share_numbers
            .into_iter()
            .zip(proof.response.r2.responses)
            .collect(),
        proof_reg_id: proof.response.r1.r1,
        proof_ip_sig: proof.response.r1.r2,
        cred_counter_less_than_max_accounts,
    };

    let info = UnsignedCredentialDeploymentInfo {
        values: cred_values,
        proofs: id_proofs,
    };
    Ok((info, commitment_rands))
}

/// Compute proof of knowledge signature
#[allow(clippy::too_many_arguments)]
fn compute_pok_sig<
    P: Pairing,
    C: Curve<Scalar = P::ScalarField>,
    AttributeType: Attribute<C::Scalar>,
>(
    commitment_key: &PedersenKey<C>,
    commitments: &CredentialDeploymentCommitments<C>,
    commitment_rands: &CommitmentsRandomness<C>,
    id_cred_sec: &Value<C>,
    prf_key: &prf::SecretKey<C>,
    alist: &AttributeList<C::Scalar, AttributeType>,
    threshold: Threshold,
    ar_list: &BTreeSet<ArIdentity>,
    ip_pub_key: &concordium_base::ps_sig::PublicKey<P>,
    blinded_sig: &concordium_base::ps_sig::BlindedSignature<P>,
    blind_rand: concordium_base::ps_sig::BlindingRandomness<P>,
) -> anyhow::Result<(com_eq_sig::ComEqSig<P, C>, com_eq_sig::ComEqSigSecret<P, C>)> {
    let att_vec = &alist.alist;
    // number of user chosen attributes (+4 is for tags, valid_to, created_at,
    // max_accounts)
    let num_user_attributes = att_vec.len() + 4;
    // To these there are always two attributes (idCredSec and prf key) added.
    let num_total_attributes = num_user_attributes + 2;
    let ar_scalars = match utils::encode_ars(ar_list) {
        Some(x) => x,
        None => bail!("Cannot encode anonymity revokers."),
    };
    let num_ars = ar_scalars.len(); // we commit to each anonymity revoker, with randomness 0
                                    // and finally we also commit to the anonymity revocation threshold.
                                    // so the total number of commitments is as follows
    let num_total_commitments = num_total_attributes + num_ars + 1;

    let y_tildas = &ip_pub_key.y_tildas;

    ensure!(
        y_tildas.len() > att_vec.len() + num_ars + 5,
        "The PS key must be long enough to accommodate all the attributes"
    );

    ensure!(
        y_tildas.len() >= num_total_attributes,
        "Too many attributes {} >= {}",
        y_tildas.len(),
        num_total_attributes
    );

    let mut gxs = Vec::with_capacity(num_total_commitments);

    let mut secrets = Vec::with_capacity(num_total_commitments);
    secrets.push((
        id_cred_sec.clone(),
        commitment_rands.id_cred_sec_rand.clone(),
    ));
    gxs.push(y_tildas[0]);
    secrets.push((prf_key.to_value(), commitment_rands.prf_rand.clone()));
    gxs.push(y_tildas[1]);

    let public_vals =
        utils::encode_public_credential_values(alist.created_at, alist.valid_to, threshold)?;

    // commitment randomness (0) for the public parameters.
    let zero = PedersenRandomness::<C>::zero();
    secrets.push((Value::new(public_vals), zero.clone()));
    gxs.push(y_tildas[2]);
    for i in 3..num_ars + 3 {
        // the encoded id revoker are commited with randomness 0.
        secrets.push((Value::new(ar_scalars[i - 3]), zero.clone()));
        gxs.push(y_tildas[i]);
    }

    let att_rands = &commitment_rands.attributes_rand;

    let tags_val = utils::encode_tags(alist.alist.keys())?;
    let tags_cmm = commitment_key.hide_worker(&tags_val, &zero);

    let max_accounts_val = Value::new(C::scalar_from_u64(alist.max_accounts.into()));
    let max_accounts_cmm =
        commitment_key.hide(&max_accounts_val, &commitment_rands.max_accounts_rand);

    secrets.push((Value::new(tags_val), zero.clone()));
    gxs.push(y_tildas[num_ars + 3]);
    secrets.push((max_accounts_val, commitment_rands.max_accounts_rand.clone()));
    gxs.push(y_tildas[num_ars + 4]);

    // NB: It is crucial here that we use a btreemap. This guarantees that
    // the att_vec.iter() iterator is ordered by keys.
    for (&g, (tag, v)) in y_tildas.iter().skip(num_ars + 3 + 1).zip(att_vec.iter()) {
        secrets.push((
            Value::new(v.to_field_element()),
            // if we commited with non-zero randomness get it.
            // otherwise we must have commited with zero randomness
            // which we should use
            att_rands.get(tag).cloned().unwrap_or_else(|| zero.clone()),
        ));
        gxs.push(g);
    }

    let mut comm_vec = Vec::with_capacity(num_total_commitments);
    let cmm_id_cred_sec = commitments.cmm_id_cred_sec_sharing_coeff[0];
    comm_vec.push(cmm_id_cred_sec);
    comm_vec.push(commitments.cmm_prf);

    // add commitment to threshold with randomness 0
    comm_vec.push(commitment_key.hide_worker(&public_vals, &zero));

    // and all commitments to ARs with randomness 0
    for ar in ar_scalars.iter() {
        comm_vec.push(commitment_key.hide_worker(ar, &zero));
    }

    comm_vec.push(tags_cmm);
    comm_vec.push(max_accounts_cmm);

    for (idx, v) in alist.alist.iter() {
        match commitments.cmm_attributes.get(idx) {
            None => {
                // need to commit with randomness 0
                let value = Value::<C>::new(v.to_field_element());
                let cmm = commitment_key.hide(&value, &zero);
                comm_vec.push(cmm);
            }
            Some(cmm) => comm_vec.push(*cmm),
        }
    }

    let secret = com_eq_sig::ComEqSigSecret {
        blind_rand,
        values_and_rands: secrets,
    };
    let prover = com_eq_sig::ComEqSig {
        blinded_sig: blinded_sig.clone(),
        commitments: comm_vec,
        // FIXME: Figure out how to get rid of the clone
        ps_pub_key: ip_pub_key.clone(),
        comm_key: *commitment_key,
    };
    Ok((prover, secret))
}

/// Computing the commitments for the credential deployment info. We only
/// compute commitments for values that are not revealed as part of the policy.
/// For the other values the verifier (the chain) will compute commitments with
/// randomness 0 in order to verify knowledge of the signature.
#[allow(clippy::too_many_arguments)]
fn compute_commitments<C: Curve, AttributeType: Attribute<C::Scalar>, R: Rng>(
    commitment_key: &PedersenKey<C>,
    alist: &AttributeList<C::Scalar, AttributeType>,
    prf_key: &prf::SecretKey<C>,
    cred_counter: u8,
    cmm_id_cred_sec_sharing_coeff: &[Commitment<C>],
    cmm_coeff_randomness: Vec<PedersenRandomness<C>>,
    policy: &Policy<C, AttributeType>,
    secret_data: &impl HasAttributeRandomness<C>,
    csprng: &mut R,
) -> anyhow::Result<(CredentialDeploymentCommitments<C>, CommitmentsRandomness<C>)> {
    let id_cred_sec_rand = if let Some(v) = cmm_coeff_randomness.first() {
        v.clone()
    } else {
        bail!("Commitment randomness is an empty vector.");
    };

    let (cmm_prf, prf_rand) = commitment_key.commit(&prf_key, csprng);

    let cred_counter = Value::<C>::new(C::scalar_from_u64(u64::from(cred_counter)));
    let (cmm_cred_counter, cred_counter_rand) = commitment_key.commit(&cred_counter, csprng);
    let max_accounts = Value::<C>::new(C::scalar_from_u64(u64::from(alist.max_accounts)));
    let (cmm_max_accounts, max_accounts_rand) = commitment_key.commit(&max_accounts, csprng);
    let att_vec = &alist.alist;
    let n = att_vec.len();
    // only commitments to attributes which are not revealed.
    ensure!(
        n >= policy.policy_vec.len(),
        "Attribute list is shorter than the number of revealed items in the policy."
    );
    let cmm_len = n - policy.policy_vec.len();
    let mut cmm_attributes = BTreeMap::new();
    let mut attributes_rand = HashMap::with_capacity(cmm_len);
    for (&i, val) in att_vec.iter() {
        // in case the value is openened there is no need to hide it.
        // We can just commit with randomness 0.
        if !policy.policy_vec.contains_key(&i) {
            let value = Value::<C>::new(val.to_field_element());
            let attr_rand = secret_data.get_attribute_commitment_randomness(&i)?;
            let cmm = commitment_key.hide(&value, &attr_rand);
            cmm_attributes.insert(i, cmm);
            attributes_rand.insert(i, attr_rand);
        }
    }
    let cdc = CredentialDeploymentCommitments {
        cmm_prf,
        cmm_cred_counter,
        cmm_max_accounts,
        cmm_attributes,
        cmm_id_cred_sec_sharing_coeff: cmm_id_cred_sec_sharing_coeff.to_owned(),
    };

    let cr = CommitmentsRandomness {
        id_cred_sec_rand,
        prf_rand,
        cred_counter_rand,
        max_accounts_rand,
        attributes_rand,
    };
    Ok((cdc, cr))
}

/// proof of knowledge of registration id
#[allow(clippy::too_many_arguments)]
fn compute_pok_reg_id<C: Curve>(
    on_chain_commitment_key: &PedersenKey<C>,
    prf_key: prf::SecretKey<C>,
    cmm_prf: &Commitment<C>,
    prf_rand: &PedersenRandomness<C>,
    cred_counter: u8,
    cmm_cred_counter: &Commitment<C>,
    cred_counter_rand: &PedersenRandomness<C>,
    // max_accounts_rand is not used at the moment.
    // it should be used for the range proof that cred_counter < max_accounts, but
    // that is not yet available
    _max_accounts_rand: &PedersenRandomness<C>,
    reg_id_exponent: C::Scalar,
    reg_id: C,
) -> (com_mult::ComMult<C>, com_mult::ComMultSecret<C>) {
    // Commitment to 1 with randomness 0, to serve as the right-hand side in
    // com_mult proof.
    // NOTE: In order for this to work the reg_id must be computed
    // with the same base as the first element of the commitment key.
    let cmm_one = on_chain_commitment_key.hide(
        &Value::<C>::new(C::Scalar::one()),
        &PedersenRandomness::zero(),
    );

    // commitments are the public values. They all have to
    let public = [
        cmm_prf.combine(cmm_cred_counter),
        Commitment(reg_id),
        cmm_one,
    ];
    // finally the secret keys are derived from actual committed values
    // and the randomness.

    let mut k = C::scalar_from_u64(u64::from(cred_counter));
    k.add_assign(&prf_key);

    // combine the two random values
    let mut rand_1 = C::Scalar::zero();
    rand_1.add_assign(prf_rand);
    rand_1.add_assign(cred_counter_rand);
    // reg_id is the commitment to reg_id_exponent with randomness 0
    // the right-hand side of the equation is commitment to 1 with randomness 0
    let values = [Value::new(k), Value::new(reg_id_exponent)];
    let rands = [
        PedersenRandomness::new(rand_1),
        PedersenRandomness::zero(),
        PedersenRandomness::zero(),
    ];

    let secret = com_mult::ComMultSecret { values, rands };

    let prover = com_mult::ComMult {
        cmms: public,
        cmm_key: *on_chain_commitment_key,
    };
    (prover, secret)
}
