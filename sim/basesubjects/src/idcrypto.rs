//! Identity layer (`id/types.rs`), encrypted transfers and the cryptographic
//! building blocks (group elements, scalars, keys, signatures, proofs).
use crate::{
    base_types::*,
    pool::{self, ArCurve, AttributeKind, IpPairing},
    txs,
    util::*,
};
use codeccore::Subject;
use concordium_base::{
    aggregate_sig,
    base::*,
    bulletproofs::{inner_product_proof::InnerProductProof, range_proof::RangeProof, utils::Generators},
    common::types::KeyIndex,
    curve_arithmetic::{Curve, Pairing},
    dodis_yampolskiy_prf as prf, ecvrf,
    eddsa_ed25519::{prove_dlog_ed25519, Ed25519DlogProof},
    elgamal,
    encrypted_transfers::types::*,
    id::{
        constants::{BaseField, BlsG2},
        secret_sharing::Threshold,
        types::*,
    },
    pedersen_commitment as pedersen, ps_sig,
    random_oracle::{Challenge, RandomOracle},
    sigma_protocols::{self as sigma, common::SigmaProof},
};
use simcore::Rng;
use std::collections::BTreeMap;

type G1 = <IpPairing as Pairing>::G1;
type G2 = <IpPairing as Pairing>::G2;
type Fr = <ArCurve as Curve>::Scalar;

pub fn g_g2(rng: &mut Rng) -> G2 {
    match rng.below(8) {
        0 => G2::zero_point(),
        1 => G2::one_point(),
        _ => G2::generate(&mut std_rng(rng)),
    }
}

pub fn g_scalar(rng: &mut Rng) -> Fr {
    match rng.below(8) {
        0 => ArCurve::scalar_from_u64(0),
        1 => ArCurve::scalar_from_u64(1),
        2 => ArCurve::scalar_from_u64(u64::MAX),
        _ => ArCurve::generate_scalar(&mut std_rng(rng)),
    }
}

pub fn g_cipher(rng: &mut Rng) -> elgamal::Cipher<ArCurve> { elgamal::Cipher(pool::g_g1(rng), pool::g_g1(rng)) }

pub fn g_commitment(rng: &mut Rng) -> pedersen::Commitment<ArCurve> { pedersen::Commitment(pool::g_g1(rng)) }

pub fn g_encrypted_amount(rng: &mut Rng) -> EncryptedAmount<ArCurve> {
    if rng.coin() {
        pool::pick_enc(rng).transfer.transfer_amount.clone()
    } else {
        EncryptedAmount {
            encryptions: [g_cipher(rng), g_cipher(rng)],
        }
    }
}

pub fn g_challenge(rng: &mut Rng) -> Challenge {
    #[allow(deprecated)]
    RandomOracle::domain(rng.bytes(8)).get_challenge()
}

pub fn g_year_month(rng: &mut Rng) -> YearMonth {
    let y = match rng.below(5) {
        0 => 1000,
        1 => 9999,
        _ => rng.range(1000, 9999) as u16,
    };
    let m = match rng.below(4) {
        0 => 1,
        1 => 12,
        _ => rng.range(1, 12) as u8,
    };
    YearMonth::new(y, m).expect("valid")
}

pub fn g_attribute_kind(rng: &mut Rng) -> AttributeKind { AttributeKind::try_new(g_string(rng, 31)).expect("at most 31 bytes") }

pub fn g_attribute_map(rng: &mut Rng) -> BTreeMap<AttributeTag, AttributeKind> {
    let n = match rng.below(10) {
        0 => 256,
        1 => 0,
        _ => rng.urange(0, 6),
    };
    distinct_sorted(rng, n, 255).into_iter().map(|t| (AttributeTag(t as u8), g_attribute_kind(rng))).collect()
}

pub fn g_policy(rng: &mut Rng) -> Policy<ArCurve, AttributeKind> {
    Policy {
        valid_to:   g_year_month(rng),
        created_at: g_year_month(rng),
        policy_vec: g_attribute_map(rng),
        _phantom:   Default::default(),
    }
}

pub fn g_attribute_list(rng: &mut Rng) -> AttributeList<BaseField, AttributeKind> {
    AttributeList {
        valid_to:     g_year_month(rng),
        created_at:   g_year_month(rng),
        max_accounts: g_u8(rng),
        alist:        g_attribute_map(rng),
        _phantom:     Default::default(),
    }
}

pub fn g_threshold(rng: &mut Rng) -> Threshold { Threshold::try_new(g_threshold_u8(rng)).expect("non-zero") }

pub fn g_cdv(rng: &mut Rng) -> CredentialDeploymentValues<ArCurve, AttributeKind> {
    if rng.coin() {
        return pool::g_cdi(rng).values;
    }
    // freely composed values: the struct carries no cross-field invariant
    let n = rng.urange(0, 4);
    let ar_data = distinct_sorted(rng, n, u32::MAX as u64 - 1)
        .into_iter()
        .map(|i| {
            (ArIdentity::try_from(i as u32 + 1).unwrap(), ChainArData {
                enc_id_cred_pub_share: g_cipher(rng),
            })
        })
        .collect();
    CredentialDeploymentValues {
        cred_key_info: txs::g_cred_public_keys(rng),
        cred_id: pool::g_g1(rng),
        ip_identity: IpIdentity(g_u32(rng)),
        threshold: g_threshold(rng),
        ar_data,
        policy: g_policy(rng),
    }
}

pub fn g_icdv(rng: &mut Rng) -> InitialCredentialDeploymentValues<ArCurve, AttributeKind> {
    if rng.coin() {
        return pool::g_icdi(rng).values;
    }
    InitialCredentialDeploymentValues {
        cred_account: txs::g_cred_public_keys(rng),
        reg_id:       pool::g_g1(rng),
        ip_identity:  IpIdentity(g_u32(rng)),
        policy:       g_policy(rng),
    }
}

pub fn g_commitments(rng: &mut Rng) -> CredentialDeploymentCommitments<ArCurve> {
    if rng.coin() {
        return pool::g_cdi(rng).proofs.id_proofs.commitments;
    }
    let n = rng.urange(0, 4);
    let cmm_attributes = distinct_sorted(rng, n, 255).into_iter().map(|t| (AttributeTag(t as u8), g_commitment(rng))).collect();
    let m = rng.urange(0, 4);
    CredentialDeploymentCommitments {
        cmm_prf: g_commitment(rng),
        cmm_cred_counter: g_commitment(rng),
        cmm_max_accounts: g_commitment(rng),
        cmm_attributes,
        cmm_id_cred_sec_sharing_coeff: (0..m).map(|_| g_commitment(rng)).collect(),
    }
}

pub fn g_acwp(rng: &mut Rng) -> AccountCredentialWithoutProofs<ArCurve, AttributeKind> {
    if rng.chance(1, 3) {
        AccountCredentialWithoutProofs::Initial { icdv: g_icdv(rng) }
    } else {
        AccountCredentialWithoutProofs::Normal {
            cdv:         g_cdv(rng),
            commitments: g_commitments(rng),
        }
    }
}

pub fn g_account_ownership_proof(rng: &mut Rng) -> AccountOwnershipProof {
    if rng.coin() {
        return pool::g_cdi(rng).proofs.proof_acc_sk;
    }
    let n = match rng.below(12) {
        0 => 255,
        1 => 2,
        _ => 1,
    };
    let sigs = distinct_sorted(rng, n, 255)
        .into_iter()
        .map(|k| {
            let sig = ed25519_dalek::Signature::from_bytes(&g_arr::<64>(rng));
            (KeyIndex(k as u8), AccountOwnershipSignature::from(sig))
        })
        .collect();
    AccountOwnershipProof { sigs }
}

pub fn g_range_proof(rng: &mut Rng) -> RangeProof<ArCurve> {
    match rng.below(3) {
        0 => pool::pick_id(rng).cdi_new.proofs.id_proofs.cred_counter_less_than_max_accounts.clone(),
        1 => pool::pick_enc(rng).transfer.proof.transfer_amount_correct_encryption.clone(),
        _ => pool::pick_enc(rng).sec_to_pub.proof.remaining_amount_correct_encryption.clone(),
    }
}

pub fn g_global_context(rng: &mut Rng) -> GlobalContext<ArCurve> {
    let n = *rng.pick(&[0usize, 1, 3, 8]);
    let mut g = GlobalContext::generate_size(g_string(rng, 20), n);
    if rng.coin() {
        // generators are arbitrary group elements
        g.on_chain_commitment_key = pedersen::CommitmentKey::new(pool::g_g1(rng), pool::g_g1(rng));
    }
    g
}

pub fn g_ps_public_key(rng: &mut Rng) -> ps_sig::PublicKey<IpPairing> { pool::pick_id(rng).ip_info.ip_verify_key.clone() }

pub fn g_baker_keys(rng: &mut Rng) -> BakerKeyPairs { BakerKeyPairs::generate(&mut std_rng(rng)) }

pub fn g_dlog_proof(rng: &mut Rng) -> Ed25519DlogProof {
    if rng.coin() {
        return pool::pick_baker(rng).add.proof_sig;
    }
    let mut r = std_rng(rng);
    let kp = ed25519_dalek::SigningKey::generate(&mut r);
    #[allow(deprecated)]
    let mut ro = RandomOracle::domain(rng.bytes(4));
    prove_dlog_ed25519(&mut r, &mut ro, &kp.verifying_key(), &kp.to_bytes())
}

pub fn subjects(v: &mut Vec<Subject>) {
    // --- group elements, scalars --------------------------------------------
    subj!(v, "curve::G1", G1, pool::g_g1);
    subj!(v, "curve::G2", G2, g_g2);
    subj!(v, "curve::Fr", Fr, g_scalar);
    subj!(v, "base::CredentialRegistrationID", CredentialRegistrationID, pool::g_cred_reg_id);
    // --- elgamal / pedersen --------------------------------------------------
    subj!(v, "elgamal::Cipher", elgamal::Cipher<ArCurve>, g_cipher);
    subj!(v, "elgamal::PublicKey", elgamal::PublicKey<ArCurve>, |rng| elgamal::PublicKey {
        generator: pool::g_g1(rng),
        key:       pool::g_g1(rng),
    });
    subj!(v, "elgamal::SecretKey", W<elgamal::SecretKey<ArCurve>>, |rng| W(elgamal::SecretKey::generate_all(&mut std_rng(rng))));
    subj!(v, "elgamal::Message", elgamal::Message<ArCurve>, |rng| elgamal::Message { value: pool::g_g1(rng) });
    subj!(v, "elgamal::Randomness", elgamal::Randomness<ArCurve>, |rng| elgamal::Randomness::new(g_scalar(rng)));
    subj!(v, "pedersen_commitment::Commitment", pedersen::Commitment<ArCurve>, g_commitment);
    subj!(v, "pedersen_commitment::CommitmentKey", pedersen::CommitmentKey<ArCurve>, |rng| pedersen::CommitmentKey::new(
        pool::g_g1(rng),
        pool::g_g1(rng)
    ));
    subj!(v, "pedersen_commitment::VecCommitmentKey", pedersen::VecCommitmentKey<ArCurve>, |rng| {
        let n = g_len_small(rng, 20);
        pedersen::VecCommitmentKey::new((0..n).map(|_| pool::g_g1(rng)).collect(), pool::g_g1(rng))
    });
    subj!(v, "pedersen_commitment::Randomness", pedersen::Randomness<ArCurve>, |rng| pedersen::Randomness::new(g_scalar(rng)));
    subj!(v, "pedersen_commitment::Value", W<pedersen::Value<ArCurve>>, |rng| W(pedersen::Value::new(g_scalar(rng))));
    // --- signatures and keys -------------------------------------------------
    subj!(v, "ps_sig::Signature", ps_sig::Signature<IpPairing>, |rng| ps_sig::Signature(pool::g_g1(rng), pool::g_g1(rng)));
    subj!(v, "ps_sig::BlindedSignature", ps_sig::BlindedSignature<IpPairing>, |rng| pool::g_cdi(rng).proofs.id_proofs.sig);
    subj!(v, "ps_sig::PublicKey", ps_sig::PublicKey<IpPairing>, g_ps_public_key);
    subj!(v, "ps_sig::SecretKey", ps_sig::SecretKey<IpPairing>, |rng| {
        let n = g_len_small(rng, 12);
        ps_sig::SecretKey::generate(n, &mut std_rng(rng))
    });
    subj!(v, "ps_sig::KnownMessage", ps_sig::KnownMessage<IpPairing>, |rng| {
        let n = g_len_small(rng, 12);
        ps_sig::KnownMessage::generate(n, &mut std_rng(rng))
    });
    subj!(v, "ps_sig::UnknownMessage", ps_sig::UnknownMessage<IpPairing>, |rng| ps_sig::UnknownMessage(pool::g_g1(rng)));
    subj!(v, "aggregate_sig::PublicKey", aggregate_sig::PublicKey<IpPairing>, |rng| aggregate_sig::PublicKey::from_secret(
        &aggregate_sig::SecretKey::generate(&mut std_rng(rng))
    ));
    subj!(v, "aggregate_sig::SecretKey", aggregate_sig::SecretKey<IpPairing>, |rng| aggregate_sig::SecretKey::generate(
        &mut std_rng(rng)
    ));
    subj!(v, "aggregate_sig::Signature", aggregate_sig::Signature<IpPairing>, |rng| {
        if rng.chance(1, 4) {
            return aggregate_sig::Signature::empty();
        }
        aggregate_sig::SecretKey::<IpPairing>::generate(&mut std_rng(rng)).sign(&rng.bytes(8))
    });
    subj!(v, "aggregate_sig::Proof", aggregate_sig::Proof<IpPairing>, |rng| pool::pick_baker(rng).add.proof_aggregation.clone());
    subj!(v, "ecvrf::PublicKey", ecvrf::PublicKey, |rng| ecvrf::PublicKey::from(&ecvrf::SecretKey::generate(&mut std_rng(rng))));
    subj!(v, "ecvrf::SecretKey", W<ecvrf::SecretKey>, |rng| W(ecvrf::SecretKey::generate(&mut std_rng(rng))));
    subj!(v, "ecvrf::Proof", ecvrf::Proof, |rng| {
        let sk = ecvrf::SecretKey::generate(&mut std_rng(rng));
        let pk = ecvrf::PublicKey::from(&sk);
        sk.prove(&pk, &rng.bytes(12))
    });
    subj!(v, "ecvrf::Keypair", WD<ecvrf::Keypair>, |rng| WD(ecvrf::Keypair::generate(&mut std_rng(rng))));
    subj!(v, "eddsa_ed25519::Ed25519DlogProof", Ed25519DlogProof, g_dlog_proof);
    subj!(v, "base::BakerSignatureVerifyKey", BakerSignatureVerifyKey, |rng| g_baker_keys(rng).signature_verify);
    subj!(v, "base::BakerElectionVerifyKey", BakerElectionVerifyKey, |rng| g_baker_keys(rng).election_verify);
    subj!(v, "base::BakerAggregationVerifyKey", BakerAggregationVerifyKey, |rng| g_baker_keys(rng).aggregation_verify);
    subj!(v, "base::BakerSignatureSignKey", W<BakerSignatureSignKey>, |rng| W(g_baker_keys(rng).signature_sign));
    subj!(v, "base::BakerElectionSignKey", W<BakerElectionSignKey>, |rng| W(g_baker_keys(rng).election_sign));
    subj!(v, "base::BakerAggregationSignKey", W<BakerAggregationSignKey>, |rng| W(g_baker_keys(rng).aggregation_sign));
    subj!(v, "base::BakerKeyPairs", W<BakerKeyPairs>, |rng| W(g_baker_keys(rng)));
    subj!(v, "dodis_yampolskiy_prf::SecretKey", W<prf::SecretKey<ArCurve>>, |rng| W(prf::SecretKey::generate(&mut std_rng(rng))));
    // --- proofs ---------------------------------------------------------------
    subj!(v, "random_oracle::Challenge", Challenge, g_challenge);
    subj!(v, "bulletproofs::RangeProof", RangeProof<ArCurve>, g_range_proof);
    subj!(v, "bulletproofs::InnerProductProof", InnerProductProof<ArCurve>, |rng| {
        let n = g_len_small(rng, 8);
        InnerProductProof {
            lr_vec: (0..n).map(|_| (pool::g_g1(rng), pool::g_g1(rng))).collect(),
            a:      g_scalar(rng),
            b:      g_scalar(rng),
        }
    });
    subj!(v, "bulletproofs::Generators", WD<Generators<ArCurve>>, |rng| WD(g_global_context(rng).bulletproof_generators));
    subj!(v, "sigma_protocols::dlog::Response", sigma::dlog::Response<ArCurve>, |rng| pool::pick_id(rng)
        .pio_v1
        .poks
        .id_cred_sec_response);
    subj!(v, "sigma_protocols::com_eq::Response", sigma::com_eq::Response<ArCurve>, |rng| pool::pick_id(rng)
        .pio_v1
        .poks
        .commitments_same_proof
        .clone());
    subj!(
        v,
        "sigma_protocols::com_eq_different_groups::Response",
        sigma::com_eq_different_groups::Response<G1, ArCurve>,
        |rng| pool::pick_id(rng).pio_v1.poks.commitments_prf_same
    );
    subj!(v, "sigma_protocols::com_enc_eq::Response", sigma::com_enc_eq::Response<ArCurve>, |rng| {
        let e = pool::pick_id(rng);
        let rs: Vec<_> = e.cdi_new.proofs.id_proofs.proof_id_cred_pub.values().collect();
        rs[rng.usize_below(rs.len())].clone()
    });
    subj!(v, "sigma_protocols::com_eq_sig::Response", WD<sigma::com_eq_sig::Response<IpPairing, ArCurve>>, |rng| WD(
        pool::g_cdi(rng).proofs.id_proofs.proof_ip_sig
    ));
    subj!(v, "sigma_protocols::com_mult::Response", sigma::com_mult::Response<ArCurve>, |rng| pool::g_cdi(rng)
        .proofs
        .id_proofs
        .proof_reg_id);
    subj!(v, "sigma_protocols::enc_trans::EncTransResponse", WD<sigma::enc_trans::EncTransResponse<ArCurve>>, |rng| WD(
        pool::pick_enc(rng).transfer.proof.accounting.response.clone()
    ));
    subj!(v, "sigma_protocols::dlog::Proof", SigmaProof<sigma::dlog::Response<ArCurve>>, |rng| pool::pick_id(rng)
        .recovery
        .proof
        .clone());
    // --- encrypted transfers ---------------------------------------------------
    subj!(v, "encrypted_transfers::EncryptedAmount", EncryptedAmount<ArCurve>, g_encrypted_amount);
    subj!(v, "encrypted_transfers::EncryptedAmountIndex", WD<EncryptedAmountIndex>, |rng| WD(g_u64(rng).into()));
    subj!(v, "encrypted_transfers::EncryptedAmountAggIndex", WD<EncryptedAmountAggIndex>, |rng| WD(g_u64(rng).into()));
    subj!(v, "encrypted_transfers::IndexedEncryptedAmount", W<IndexedEncryptedAmount<ArCurve>>, |rng| W(IndexedEncryptedAmount {
        encrypted_chunks: g_encrypted_amount(rng),
        index:            g_u64(rng).into(),
    }));
    subj!(v, "encrypted_transfers::AggregatedDecryptedAmount", W<AggregatedDecryptedAmount<ArCurve>>, |rng| W(
        AggregatedDecryptedAmount {
            agg_encrypted_amount: g_encrypted_amount(rng),
            agg_amount:           g_amount(rng),
            agg_index:            g_u64(rng).into(),
        }
    ));
    subj!(v, "encrypted_transfers::EncryptedAmountTransferData", WD<EncryptedAmountTransferData<ArCurve>>, |rng| {
        let mut d = pool::pick_enc(rng).transfer.clone();
        if rng.coin() {
            d.index = g_u64(rng).into();
        }
        WD(d)
    });
    subj!(v, "encrypted_transfers::SecToPubAmountTransferData", WD<SecToPubAmountTransferData<ArCurve>>, |rng| {
        let mut d = pool::pick_enc(rng).sec_to_pub.clone();
        if rng.coin() {
            d.index = g_u64(rng).into();
            d.transfer_amount = g_amount(rng);
        }
        WD(d)
    });
    subj!(v, "encrypted_transfers::EncryptedAmountTransferProof", WD<EncryptedAmountTransferProof<ArCurve>>, |rng| WD(
        pool::pick_enc(rng).transfer.proof.clone()
    ));
    subj!(v, "encrypted_transfers::SecToPubAmountTransferProof", WD<SecToPubAmountTransferProof<ArCurve>>, |rng| WD(
        pool::pick_enc(rng).sec_to_pub.proof.clone()
    ));
    // --- id/types.rs -------------------------------------------------------------
    subj!(v, "id::IpCdiSignature", IpCdiSignature, |rng| pool::g_icdi(rng).sig);
    subj!(v, "id::AccountOwnershipSignature", AccountOwnershipSignature, |rng| AccountOwnershipSignature::from(
        ed25519_dalek::Signature::from_bytes(&g_arr::<64>(rng))
    ));
    subj!(v, "id::AccountOwnershipProof", AccountOwnershipProof, g_account_ownership_proof);
    subj!(v, "id::IpIdentity", IpIdentity, |rng| IpIdentity(g_u32(rng)));
    subj!(v, "id::ArIdentity", ArIdentity, pool::g_ar_identity);
    subj!(v, "id::AttributeTag", AttributeTag, |rng| AttributeTag(g_u8(rng)));
    subj!(v, "id::AttributeKind", AttributeKind, g_attribute_kind);
    subj!(v, "id::YearMonth", YearMonth, g_year_month);
    subj!(v, "id::AttributeList", AttributeList<BaseField, AttributeKind>, g_attribute_list);
    subj!(v, "id::Policy", Policy<ArCurve, AttributeKind>, g_policy);
    subj!(v, "id::Threshold", W<Threshold>, |rng| W(g_threshold(rng)));
    subj!(v, "id::SchemeId", SchemeId, |_| SchemeId::Ed25519);
    subj!(v, "id::VerifyKey", VerifyKey, g_verify_key);
    subj!(v, "id::Description", Description, pool::g_description);
    subj!(v, "id::IpInfo", IpInfo<IpPairing>, pool::g_ip_info);
    subj!(v, "id::ArInfo", ArInfo<ArCurve>, pool::g_ar_info);
    subj!(v, "id::IpAnonymityRevokers", WD<IpAnonymityRevokers<ArCurve>>, |rng| {
        let n = rng.urange(0, 3);
        WD(IpAnonymityRevokers {
            ars:        (0..n).map(|_| pool::g_ar_info(rng)).collect(),
            ar_cmm_key: pedersen::CommitmentKey::new(pool::g_g1(rng), pool::g_g1(rng)),
            ar_base:    pool::g_g1(rng),
        })
    });
    subj!(v, "id::GlobalContext", WD<GlobalContext<ArCurve>>, |rng| WD(g_global_context(rng)));
    subj!(v, "id::ChainArData", ChainArData<ArCurve>, |rng| ChainArData {
        enc_id_cred_pub_share: g_cipher(rng),
    });
    subj!(v, "id::IpArData", IpArData<ArCurve>, |rng| {
        let e = pool::pick_id(rng);
        let xs: Vec<_> = e.pio_v1.ip_ar_data.values().collect();
        xs[rng.usize_below(xs.len())].clone()
    });
    subj!(v, "id::ChoiceArParameters", ChoiceArParameters, |rng| {
        if rng.coin() {
            return pool::pick_id(rng).pio_v1.choice_ar_parameters.clone();
        }
        let n = g_len_small(rng, 300);
        ChoiceArParameters {
            ar_identities: distinct_sorted(rng, n, u32::MAX as u64 - 1)
                .into_iter()
                .map(|i| ArIdentity::try_from(i as u32 + 1).unwrap())
                .collect(),
            threshold:     g_threshold(rng),
        }
    });
    subj!(v, "id::CommonPioProofFields", CommonPioProofFields<IpPairing, ArCurve>, |rng| pool::pick_id(rng).pio_v1.poks.clone());
    subj!(v, "id::PreIdentityProof", WD<PreIdentityProof<IpPairing, ArCurve>>, |rng| WD(pool::pick_id(rng).pio_v0.poks.clone()));
    subj!(v, "id::PreIdentityObject", WD<pool::Pio>, |rng| WD(pool::pick_id(rng).pio_v0.clone()));
    subj!(v, "id::PreIdentityObjectV1", pool::PioV1, |rng| pool::pick_id(rng).pio_v1.clone());
    subj!(v, "id::PublicInformationForIp", WD<PublicInformationForIp<ArCurve>>, |rng| WD(pool::pick_id(rng)
        .pio_v0
        .pub_info_for_ip
        .clone()));
    subj!(v, "id::CredentialDeploymentCommitments", CredentialDeploymentCommitments<ArCurve>, g_commitments);
    subj!(v, "id::CredDeploymentProofs", WD<CredDeploymentProofs<IpPairing, ArCurve>>, |rng| WD(pool::g_cdi(rng).proofs));
    subj!(v, "id::IdOwnershipProofs", WD<IdOwnershipProofs<IpPairing, ArCurve>>, |rng| WD(pool::g_cdi(rng).proofs.id_proofs));
    subj!(v, "id::CredentialDeploymentValues", CredentialDeploymentValues<ArCurve, AttributeKind>, g_cdv);
    subj!(v, "id::InitialCredentialDeploymentValues", InitialCredentialDeploymentValues<ArCurve, AttributeKind>, g_icdv);
    subj!(v, "id::CredentialDeploymentInfo", WD<pool::Cdi>, |rng| WD(pool::g_cdi(rng)));
    subj!(v, "id::InitialCredentialDeploymentInfo", WD<pool::Icdi>, |rng| WD(pool::g_icdi(rng)));
    subj!(v, "id::UnsignedCredentialDeploymentInfo", WD<UnsignedCredentialDeploymentInfo<IpPairing, ArCurve, AttributeKind>>, |rng| {
        let cdi = pool::g_cdi(rng);
        WD(UnsignedCredentialDeploymentInfo {
            values: cdi.values,
            proofs: cdi.proofs.id_proofs,
        })
    });
    subj!(v, "id::AccountCredentialWithoutProofs", AccountCredentialWithoutProofs<ArCurve, AttributeKind>, g_acwp);
    subj!(v, "id::AccountCredential", WD<AccountCredential<IpPairing, ArCurve, AttributeKind>>, |rng| WD(txs::g_account_credential(
        rng
    )));
    subj!(v, "id::AccountCredentialMessage", WD<AccountCredentialMessage<IpPairing, ArCurve, AttributeKind>>, |rng| WD(
        txs::g_credential_message(rng)
    ));
    subj!(v, "id::IdRecoveryRequest", W<IdRecoveryRequest<ArCurve>>, |rng| {
        let r = &pool::pick_id(rng).recovery;
        W(IdRecoveryRequest {
            id_cred_pub: r.id_cred_pub,
            timestamp:   if rng.coin() { r.timestamp } else { g_u64(rng) },
            proof:       r.proof.clone(),
        })
    });
    subj!(v, "id::IdCredentials", IdCredentials<ArCurve>, |rng| IdCredentials::generate(&mut std_rng(rng)));
    subj!(v, "id::AccCredentialInfo", AccCredentialInfo<ArCurve>, |rng| concordium_base::id::test::test_create_aci(&mut std_rng(rng)));
    subj!(v, "id::IpArDecryptedData", W<IpArDecryptedData<ArCurve>>, |rng| W(IpArDecryptedData {
        ar_identity:   pool::g_ar_identity(rng),
        prf_key_share: pedersen::Value::new(g_scalar(rng)),
    }));
    subj!(v, "id::ChainArDecryptedData", ChainArDecryptedData<ArCurve>, |rng| ChainArDecryptedData {
        ar_identity:       pool::g_ar_identity(rng),
        id_cred_pub_share: elgamal::Message { value: pool::g_g1(rng) },
    });
    let _ = BlsG2::zero_point;
}
