//! Value generators for the concordium_base binary-serialisable chain types
//! (property C05). Each subject is `base_subject::<T>(name, gen)` where `gen`
//! builds a value of `T` from the simulator's PRNG through public
//! constructors, struct literals and generation functions (never through
//! `deserial`).
//!
//! * `prims`      - integers, generic containers, local `#[derive(Serialize)]` types
//! * `base_types` - `base.rs`, `common/types.rs`, hashes, smart contract and PLT leaf types
//! * `upd`        - `updates.rs`
//! * `txs`        - `transactions.rs`
//! * `idcrypto`   - `id/types.rs`, encrypted transfers, curves, keys, signatures, proofs
//! * `pool`       - expensive values built once per process from fixed seeds
//! * `cred_det`   - `create_credential` with an explicit random source (upstream uses `thread_rng`)
//!
//! Every generator is a pure function of the `Rng` it is given, also across
//! processes (test `print_digests`). Types without `PartialEq`/`Debug` are
//! wrapped (`util::WD`, `util::W`); their typed equality is equality of
//! encodings.
//!
//! Environment: `VERIF_C05_ABORTING_SUBJECTS=1` adds the subjects that contain
//! a `ProtocolUpdate` (see `upd::include_aborting`): their decoder can be made
//! to abort the process by damaged input, which ends an in-process batch.
#[macro_use]
pub mod util;
pub mod base_types;
pub mod cred_det;
pub mod idcrypto;
pub mod pool;
pub mod prims;
pub mod txs;
pub mod upd;

use codeccore::Subject;

pub fn base_subjects() -> Vec<Subject> {
    let mut v = Vec::new();
    prims::subjects(&mut v);
    base_types::subjects(&mut v);
    upd::subjects(&mut v);
    txs::subjects(&mut v);
    idcrypto::subjects(&mut v);
    v
}

/// Subjects whose generator is right but whose codec in concordium_base does
/// not invert its own encoder (a round trip failure on every value). They are
/// kept in `base_subjects()` so that the defect is visible to the batch.
pub const ROUNDTRIP_DEFECT_SUBJECTS: &[&str] = &[];

#[cfg(test)]
mod tests {
    use simcore::faultio::ReadPlan;

    fn seeds() -> impl Iterator<Item = u64> { (0..20u64).map(|s| s.wrapping_mul(0x9E37_79B9_7F4A_7C15) ^ s) }

    #[test]
    fn deterministic_and_round_trips() {
        let t = std::time::Instant::now();
        crate::pool::force_all();
        eprintln!("pool construction: {:?}", t.elapsed());
        let subjects = super::base_subjects();
        eprintln!("{} subjects", subjects.len());
        let mut names = std::collections::BTreeSet::new();
        let mut failures = Vec::new();
        for s in &subjects {
            assert!(names.insert(s.name.clone()), "duplicate subject name {}", s.name);
            let known_defect = super::ROUNDTRIP_DEFECT_SUBJECTS.contains(&s.name.as_str());
            for seed in seeds() {
                let a = (s.gen_encode)(seed);
                let b = (s.gen_encode)(seed);
                if a != b {
                    failures.push(format!("{}: seed {} not deterministic", s.name, seed));
                    break;
                }
                match (s.typed)(seed, &ReadPlan::clean()) {
                    Ok(()) if known_defect => {
                        failures.push(format!("{}: listed as a round trip defect but seed {} round trips", s.name, seed));
                        break;
                    }
                    Err(e) if !known_defect => {
                        let e: String = e.chars().take(300).collect();
                        failures.push(format!("{}: seed {} round trip: {}", s.name, seed, e));
                        break;
                    }
                    _ => {}
                }
            }
        }
        assert!(failures.is_empty(), "{} failures:\n{}", failures.len(), failures.join("\n"));
    }

    /// Prints one digest per subject over the encodings of the test seeds; two
    /// separate processes must print the same lines (cross-process determinism,
    /// needed for replaying recorded seeds).
    #[test]
    fn print_digests() {
        use sha2::Digest;
        let mut all = sha2::Sha256::new();
        for s in super::base_subjects() {
            let mut h = sha2::Sha256::new();
            for seed in seeds() {
                h.update((s.gen_encode)(seed));
            }
            let d = h.finalize();
            all.update(d);
            println!("DIGEST {} {}", hex::encode(&d[..8]), s.name);
        }
        println!("DIGEST-ALL {}", hex::encode(all.finalize()));
    }

    /// Every variant of the two big sum types is reachable and round trips.
    #[test]
    fn every_payload_variant_round_trips() {
        use crate::util::WD;
        use concordium_base::{
            common::{from_bytes, to_bytes},
            transactions::Payload,
            updates::UpdatePayload,
        };
        let mut tags = std::collections::BTreeSet::new();
        for variant in 0..crate::txs::PAYLOAD_VARIANTS {
            for seed in seeds().take(8) {
                let v = crate::txs::g_payload_variant(&mut simcore::Rng::new(seed), variant);
                let b = to_bytes(&v);
                tags.insert(b[0]);
                let mut cur = std::io::Cursor::new(&b);
                let d: Payload = from_bytes(&mut cur).unwrap_or_else(|e| panic!("payload variant {} seed {}: {:#}", variant, seed, e));
                assert_eq!(cur.position() as usize, b.len());
                assert!(WD(d) == WD(v), "payload variant {} seed {}", variant, seed);
            }
        }
        assert_eq!(tags.len() as u64, crate::txs::PAYLOAD_VARIANTS);
        let mut tags = std::collections::BTreeSet::new();
        for variant in 0..crate::upd::UPDATE_PAYLOAD_VARIANTS {
            for seed in seeds().take(8) {
                let v = crate::upd::g_update_payload_variant(&mut simcore::Rng::new(seed), variant);
                let b = to_bytes(&v);
                tags.insert(b[0]);
                let mut cur = std::io::Cursor::new(&b);
                let d: UpdatePayload =
                    from_bytes(&mut cur).unwrap_or_else(|e| panic!("update payload variant {} seed {}: {:#}", variant, seed, e));
                assert_eq!(cur.position() as usize, b.len());
                assert!(WD(d) == WD(v), "update payload variant {} seed {}", variant, seed);
            }
        }
        assert_eq!(tags.len() as u64, crate::upd::UPDATE_PAYLOAD_VARIANTS);
        // all 2^9 presence combinations of ConfigureBaker
        let mut bitmaps = std::collections::BTreeSet::new();
        let mut seed = 0u64;
        while bitmaps.len() < 512 && seed < 100_000 {
            let v = crate::txs::g_payload_variant(&mut simcore::Rng::new(seed), 19);
            let b = to_bytes(&v);
            bitmaps.insert(u16::from_be_bytes([b[1], b[2]]));
            seed += 1;
        }
        assert_eq!(bitmaps.len(), 512, "ConfigureBaker option combinations reached");
    }
}
