//! Value generators for the concordium_base binary-serialisable chain types
//! (property C05). Placeholder committed while the full generator set is
//! being written.
use codeccore::{base_subject, Subject};
use simcore::Rng;

fn gen_u64(rng: &mut Rng) -> u64 {
    match rng.below(6) {
        0 => 0,
        1 => u64::MAX,
        2 => rng.below(256),
        _ => rng.next_u64(),
    }
}

pub fn base_subjects() -> Vec<Subject> {
    let mut v = Vec::new();
    v.push(base_subject::<u64>("u64", gen_u64));
    v.push(base_subject::<Vec<u8>>("Vec<u8>", |rng| {
        let n = rng.urange(0, 40);
        rng.bytes(n)
    }));
    v
}
