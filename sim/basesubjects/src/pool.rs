//! Pools of expensive values (pairing crypto, zero-knowledge proofs), built
//! once per process from fixed seeds. Everything in here is a pure function of
//! the constants below: no `thread_rng`, no clock.
use crate::{base_types::*, cred_det::create_credential_det, util::*};
use concordium_base::{
    base::{BakerKeyPairs, CredentialRegistrationID},
    common::types::{Amount, KeyIndex, KeyPair, TransactionTime},
    contracts_common::{AccountAddress, SignatureThreshold},
    curve_arithmetic::Curve,
    elgamal,
    encrypted_transfers::{self, types::*},
    id::{
        account_holder::{build_pub_info_for_ip, generate_pio_v1_with_rng},
        constants::BaseField,
        identity_provider::{create_initial_cdi, sign_identity_object_v1_with_rng},
        secret_sharing::Threshold,
        test::{test_create_ars, test_create_id_use_data, test_create_ip_info},
        types::*,
    },
    pedersen_commitment::Value as PedersenValue,
    ps_sig,
    random_oracle::{RandomOracle, TranscriptProtocol},
    sigma_protocols::{common::prove, dlog},
    transactions::{BakerAddKeysPayload, BakerUpdateKeysPayload, ConfigureBakerKeysPayload},
};
pub use concordium_base::id::constants::{ArCurve, AttributeKind, IpPairing};
use rand::{rngs::StdRng, SeedableRng};
use simcore::Rng;
use std::{collections::BTreeMap, sync::LazyLock};

pub const POOL_SEED: u64 = 0xC05;

pub type Cdi = CredentialDeploymentInfo<IpPairing, ArCurve, AttributeKind>;
pub type Icdi = InitialCredentialDeploymentInfo<ArCurve, AttributeKind>;
pub type Pio = PreIdentityObject<IpPairing, ArCurve>;
pub type PioV1 = PreIdentityObjectV1<IpPairing, ArCurve>;
pub type AList = AttributeList<BaseField, AttributeKind>;

pub static GLOBAL: LazyLock<GlobalContext<ArCurve>> = LazyLock::new(|| GlobalContext::generate(String::from("genesis_string")));

/// A smaller context (64 generators) as used by the encrypted transfer proofs.
pub static GLOBAL_SMALL: LazyLock<GlobalContext<ArCurve>> =
    LazyLock::new(|| GlobalContext::generate_size(String::from("genesis_string"), 64));

// ---------------------------------------------------------------------------
// baker keys with proofs
// ---------------------------------------------------------------------------

pub struct BakerEntry {
    pub keys:      BakerKeyPairs,
    pub add:       BakerAddKeysPayload,
    pub update:    BakerUpdateKeysPayload,
    pub configure: ConfigureBakerKeysPayload,
}

pub static BAKERS: LazyLock<Vec<BakerEntry>> = LazyLock::new(|| {
    let mut rng = StdRng::seed_from_u64(POOL_SEED ^ 0x1);
    (0..4)
        .map(|i| {
            let keys = BakerKeyPairs::generate(&mut rng);
            let sender = AccountAddress([i as u8; 32]);
            BakerEntry {
                add: BakerAddKeysPayload::new(&keys, sender, &mut rng),
                update: BakerUpdateKeysPayload::new(&keys, sender, &mut rng),
                configure: ConfigureBakerKeysPayload::new(&keys, sender, &mut rng),
                keys,
            }
        })
        .collect()
});

pub fn pick_baker(rng: &mut Rng) -> &'static BakerEntry { &BAKERS[rng.usize_below(BAKERS.len())] }

// ---------------------------------------------------------------------------
// encrypted transfers
// ---------------------------------------------------------------------------

pub struct EncEntry {
    pub transfer:   EncryptedAmountTransferData<ArCurve>,
    pub sec_to_pub: SecToPubAmountTransferData<ArCurve>,
    pub input:      AggregatedDecryptedAmount<ArCurve>,
    pub pk:         elgamal::PublicKey<ArCurve>,
    pub sk:         elgamal::SecretKey<ArCurve>,
}

pub static ENC: LazyLock<Vec<EncEntry>> = LazyLock::new(|| {
    let mut rng = StdRng::seed_from_u64(POOL_SEED ^ 0x2);
    let context = &*GLOBAL_SMALL;
    // balance / amount to send: boundary cases included
    let cases: [(u64, u64); 4] = [(u64::MAX, 0), (1, 1), (0x1234_5678_9abc_def0, 0x1234_5678), (1 << 32, (1 << 32) - 1)];
    cases
        .iter()
        .enumerate()
        .map(|(i, &(s, a))| {
            let sk_sender = elgamal::SecretKey::generate(context.elgamal_generator(), &mut rng);
            let pk_sender = elgamal::PublicKey::from(&sk_sender);
            let sk_receiver = elgamal::SecretKey::generate(&pk_sender.generator, &mut rng);
            let pk_receiver = elgamal::PublicKey::from(&sk_receiver);
            #[allow(deprecated)]
            let enc = encrypted_transfers::encrypt_amount(context, &pk_sender, Amount::from_micro_ccd(s), &mut rng);
            let index = [0u64, u64::MAX, 7, 1 << 40][i % 4];
            let input = AggregatedDecryptedAmount {
                agg_amount:           Amount::from_micro_ccd(s),
                agg_encrypted_amount: enc.0.clone(),
                agg_index:            index.into(),
            };
            #[allow(deprecated)]
            let transfer = encrypted_transfers::make_transfer_data(
                context,
                &pk_receiver,
                &sk_sender,
                &input,
                Amount::from_micro_ccd(a),
                &mut rng,
            )
            .expect("transfer data");
            let sec_to_pub = encrypted_transfers::make_sec_to_pub_transfer_data(
                context,
                &sk_sender,
                &input,
                Amount::from_micro_ccd(a),
                &mut rng,
            )
            .expect("sec to pub transfer data");
            EncEntry {
                transfer,
                sec_to_pub,
                input,
                pk: pk_receiver,
                sk: sk_receiver,
            }
        })
        .collect()
});

pub fn pick_enc(rng: &mut Rng) -> &'static EncEntry { &ENC[rng.usize_below(ENC.len())] }

// ---------------------------------------------------------------------------
// identity layer
// ---------------------------------------------------------------------------

pub struct IdEntry {
    pub ip_info:     IpInfo<IpPairing>,
    pub ars_infos:   BTreeMap<ArIdentity, ArInfo<ArCurve>>,
    pub alist:       AList,
    pub pio_v1:      PioV1,
    /// Version 0 pre-identity object assembled from the version 1 object: the
    /// extra `prf_regid_proof` is a well-formed response of the right shape but
    /// not a valid proof (upstream `generate_pio` only exists with `thread_rng`).
    pub pio_v0:      Pio,
    pub ip_sig:      ps_sig::Signature<IpPairing>,
    /// Credential for a new account.
    pub cdi_new:     Cdi,
    /// Credential to be added to an existing account.
    pub cdi_existing: Cdi,
    pub unsigned:    UnsignedCredentialDeploymentInfo<IpPairing, ArCurve, AttributeKind>,
    pub icdi:        Icdi,
    pub recovery:    IdRecoveryRequest<ArCurve>,
    pub expiry:      TransactionTime,
    pub existing:    AccountAddress,
}

fn year_month(y: u16, m: u8) -> YearMonth { YearMonth::new(y, m).expect("valid year/month") }

fn make_alist(i: usize) -> AList {
    let mut alist = BTreeMap::new();
    match i {
        0 => {
            alist.insert(AttributeTag::from(0u8), AttributeKind::try_new("55".into()).unwrap());
            alist.insert(AttributeTag::from(8u8), AttributeKind::try_new("31".into()).unwrap());
        }
        1 => {}
        2 => {
            alist.insert(AttributeTag::from(3u8), AttributeKind::try_new(String::new()).unwrap());
        }
        _ => {
            for t in [0u8, 1, 4, 8, 17] {
                alist.insert(AttributeTag::from(t), AttributeKind::try_new("x".repeat(31 - t as usize % 4)).unwrap());
            }
        }
    }
    AList {
        valid_to: [year_month(2022, 5), year_month(9999, 12), year_month(1000, 1), year_month(2031, 11)][i % 4],
        created_at: [year_month(2020, 5), year_month(1000, 1), year_month(1000, 1), year_month(2021, 2)][i % 4],
        max_accounts: [237u8, 255, 1, 40][i % 4],
        alist,
        _phantom: Default::default(),
    }
}

fn make_keys(rng: &mut StdRng, idxs: &[u8]) -> BTreeMap<KeyIndex, KeyPair> {
    idxs.iter().map(|i| (KeyIndex(*i), KeyPair::generate(rng))).collect()
}

pub fn recovery_request(
    ip_info: &IpInfo<IpPairing>,
    context: &GlobalContext<ArCurve>,
    id_cred_sec: &PedersenValue<ArCurve>,
    timestamp: u64,
    rng: &mut StdRng,
) -> IdRecoveryRequest<ArCurve> {
    // `generate_id_recovery_request` with the random source made explicit
    let g = context.on_chain_commitment_key.g;
    let id_cred_pub = g.mul_by_scalar(id_cred_sec);
    let prover = dlog::Dlog::<ArCurve> {
        public: id_cred_pub,
        coeff:  g,
    };
    let secret = dlog::DlogSecret {
        secret: id_cred_sec.clone(),
    };
    #[allow(deprecated)]
    let mut transcript = RandomOracle::domain("IdRecoveryProof");
    transcript.append_message(b"ctx", &context);
    transcript.append_message(b"timestamp", &timestamp);
    transcript.append_message(b"ipIdentity", &ip_info.ip_identity);
    transcript.append_message(b"ipVerifyKey", &ip_info.ip_verify_key);
    let proof = prove(&mut transcript, &prover, secret, rng).expect("dlog proof");
    IdRecoveryRequest {
        id_cred_pub,
        timestamp,
        proof,
    }
}

fn make_id_entry(i: usize) -> IdEntry {
    let mut rng = StdRng::seed_from_u64(POOL_SEED ^ 0x100 ^ (i as u64) << 12);
    let global = &*GLOBAL;
    let num_ars: u8 = [5, 1, 2, 3][i % 4];
    let alist = make_alist(i);
    let max_attrs = alist.alist.len() as u8 + 2;
    let IpData {
        public_ip_info: mut ip_info,
        ip_secret_key,
        ip_cdi_secret_key,
    } = test_create_ip_info(&mut rng, num_ars, max_attrs);
    ip_info.ip_identity = IpIdentity([0u32, u32::MAX, 1, 77][i % 4]);
    let (ars_infos, _ars_secret) = test_create_ars(&global.on_chain_commitment_key.g, num_ars, &mut rng);
    let id_use_data = test_create_id_use_data(&mut rng);
    let context = IpContext::new(&ip_info, &ars_infos, global);
    let threshold = Threshold::try_new([4u8, 1, 2, 1][i % 4]).unwrap();

    let (pio_v1, randomness) =
        generate_pio_v1_with_rng(&context, threshold, &id_use_data, &mut rng).expect("version 1 pre-identity object");
    assert!(*randomness == *id_use_data.randomness);
    let ip_sig = sign_identity_object_v1_with_rng(&pio_v1, &ip_info, &alist, &ip_secret_key, &mut rng).expect("ip signature");

    // initial account / version 0 flow
    let initial_account = InitialAccountData {
        keys:      make_keys(&mut rng, [&[0u8, 1, 2][..], &[0], &[255], &[0, 7, 200, 255]][i % 4]),
        threshold: [SignatureThreshold::TWO, SignatureThreshold::ONE, SignatureThreshold::ONE, SignatureThreshold::try_from(4).unwrap()]
            [i % 4],
    };
    let pub_info_for_ip = build_pub_info_for_ip(
        global,
        &id_use_data.aci.cred_holder_info.id_cred.id_cred_sec,
        &id_use_data.aci.prf_key,
        &initial_account,
    )
    .expect("public information for ip");
    let proof_acc_sk = AccountOwnershipProof {
        sigs: initial_account.sign_public_information_for_ip(&pub_info_for_ip),
    };
    let pio_v0 = PreIdentityObject {
        pub_info_for_ip: pub_info_for_ip.clone(),
        ip_ar_data: pio_v1.ip_ar_data.clone(),
        choice_ar_parameters: pio_v1.choice_ar_parameters.clone(),
        cmm_sc: pio_v1.cmm_sc,
        cmm_prf: pio_v1.cmm_prf,
        cmm_prf_sharing_coeff: pio_v1.cmm_prf_sharing_coeff.clone(),
        poks: PreIdentityProof {
            common_proof_fields: pio_v1.poks.clone(),
            prf_regid_proof: pio_v1.poks.commitments_same_proof.clone(),
            proof_acc_sk,
        },
    };
    let expiry = TransactionTime::from_seconds([111111111111111111u64, 0, u64::MAX, 1_700_000_000][i % 4]);
    let icdi = create_initial_cdi(&ip_info, pub_info_for_ip, &alist, expiry, &ip_cdi_secret_key);

    // credentials
    let id_object = IdentityObjectV1 {
        pre_identity_object: pio_v1.clone(),
        alist: alist.clone(),
        signature: ip_sig.clone(),
    };
    let mut policy_vec = BTreeMap::new();
    if let Some((tag, val)) = alist.alist.iter().next_back() {
        if i != 3 {
            policy_vec.insert(*tag, val.clone());
        }
    }
    if i == 3 {
        // reveal everything
        policy_vec = alist.alist.clone();
    }
    let policy = Policy {
        valid_to: alist.valid_to,
        created_at: alist.created_at,
        policy_vec,
        _phantom: Default::default(),
    };
    let cred_data = CredentialData {
        keys:      make_keys(&mut rng, [&[0u8, 1, 2][..], &[0], &[3, 9], &[0, 1, 2, 3, 4]][i % 4]),
        threshold: [SignatureThreshold::TWO, SignatureThreshold::ONE, SignatureThreshold::TWO, SignatureThreshold::try_from(5).unwrap()]
            [i % 4],
    };
    let attr_rand: BTreeMap<AttributeTag, PedersenValue<ArCurve>> =
        alist.alist.keys().map(|t| (*t, PedersenValue::generate(&mut rng))).collect();
    let cred_counter = [0u8, 255, 1, 17][i % 4];
    let (cdi_new, _) = create_credential_det(
        context,
        &id_object,
        &id_use_data,
        cred_counter,
        policy.clone(),
        &cred_data,
        &attr_rand,
        &either::Either::Left(expiry),
        &mut rng,
    )
    .expect("credential for a new account");
    let existing = AccountAddress([0x40 + i as u8; 32]);
    let (cdi_existing, _) = create_credential_det(
        context,
        &id_object,
        &id_use_data,
        cred_counter.wrapping_add(1).min(alist.max_accounts),
        policy.clone(),
        &cred_data,
        &attr_rand,
        &either::Either::Right(existing),
        &mut rng,
    )
    .expect("credential for an existing account");
    let unsigned = UnsignedCredentialDeploymentInfo {
        values: cdi_existing.values.clone(),
        proofs: cdi_existing.proofs.id_proofs.clone(),
    };
    let recovery = recovery_request(
        &ip_info,
        global,
        &id_use_data.aci.cred_holder_info.id_cred.id_cred_sec,
        [0u64, u64::MAX, 1_700_000_000, 5][i % 4],
        &mut rng,
    );
    IdEntry {
        ip_info,
        ars_infos,
        alist,
        pio_v1,
        pio_v0,
        ip_sig,
        cdi_new,
        cdi_existing,
        unsigned,
        icdi,
        recovery,
        expiry,
        existing,
    }
}

pub static IDS: LazyLock<Vec<IdEntry>> = LazyLock::new(|| (0..4).map(make_id_entry).collect());

pub fn pick_id(rng: &mut Rng) -> &'static IdEntry { &IDS[rng.usize_below(IDS.len())] }

pub fn g_description(rng: &mut Rng) -> Description {
    Description {
        name:        g_string(rng, 30),
        url:         g_string(rng, 30),
        description: if rng.chance(1, 20) { crate::prims::g_string_exact(rng, 5000) } else { g_string(rng, 30) },
    }
}

pub fn g_ar_identity(rng: &mut Rng) -> ArIdentity {
    let x = g_u32(rng).max(1);
    ArIdentity::try_from(x).expect("non-zero")
}

/// A pooled anonymity revoker key with freshly generated identity and description.
pub fn g_ar_info(rng: &mut Rng) -> ArInfo<ArCurve> {
    let e = pick_id(rng);
    let keys: Vec<&ArInfo<ArCurve>> = e.ars_infos.values().collect();
    let base = keys[rng.usize_below(keys.len())];
    ArInfo {
        ar_identity:    g_ar_identity(rng),
        ar_description: g_description(rng),
        ar_public_key:  base.ar_public_key,
    }
}

/// A pooled identity provider key with freshly generated identity and description.
pub fn g_ip_info(rng: &mut Rng) -> IpInfo<IpPairing> {
    let e = pick_id(rng);
    IpInfo {
        ip_identity:       IpIdentity(g_u32(rng)),
        ip_description:    g_description(rng),
        ip_verify_key:     e.ip_info.ip_verify_key.clone(),
        ip_cdi_verify_key: g_ed25519_vk(rng),
    }
}

pub fn g_cdi(rng: &mut Rng) -> Cdi {
    let e = pick_id(rng);
    if rng.coin() {
        e.cdi_new.clone()
    } else {
        e.cdi_existing.clone()
    }
}

pub fn g_icdi(rng: &mut Rng) -> Icdi { pick_id(rng).icdi.clone() }

pub fn g_cred_reg_id(rng: &mut Rng) -> CredentialRegistrationID {
    match rng.below(4) {
        0 => CredentialRegistrationID::new(pick_id(rng).cdi_new.values.cred_id),
        1 => CredentialRegistrationID::new(pick_id(rng).icdi.values.reg_id),
        _ => CredentialRegistrationID::new(g_g1(rng)),
    }
}

/// Random elements of G1 (and the two distinguished points).
pub static G1_POINTS: LazyLock<Vec<ArCurve>> = LazyLock::new(|| {
    let mut rng = StdRng::seed_from_u64(POOL_SEED ^ 0x3);
    let mut v = vec![ArCurve::zero_point(), ArCurve::one_point()];
    v.extend((0..30).map(|_| ArCurve::generate(&mut rng)));
    v
});

/// Group elements: identity, generator, pooled points, or a fresh point derived
/// from the PRNG.
pub fn g_g1(rng: &mut Rng) -> ArCurve {
    match rng.below(8) {
        0 => ArCurve::zero_point(),
        1 => ArCurve::one_point(),
        2 | 3 => ArCurve::generate(&mut std_rng(rng)),
        _ => G1_POINTS[rng.usize_below(G1_POINTS.len())],
    }
}

pub fn g_cred_reg_id_cheap(rng: &mut Rng) -> CredentialRegistrationID {
    CredentialRegistrationID::new(G1_POINTS[rng.usize_below(G1_POINTS.len())])
}

/// Build every pool (used by tests and to measure construction time).
pub fn force_all() {
    LazyLock::force(&GLOBAL);
    LazyLock::force(&GLOBAL_SMALL);
    LazyLock::force(&BAKERS);
    LazyLock::force(&ENC);
    LazyLock::force(&IDS);
    LazyLock::force(&G1_POINTS);
}

#[cfg(test)]
mod tests {
    use super::*;
    use concordium_base::id::{chain::verify_cdi, identity_provider::validate_id_recovery_request};

    #[test]
    fn pooled_credentials_verify() {
        let t = std::time::Instant::now();
        force_all();
        eprintln!("pool construction: {:?}", t.elapsed());
        for e in IDS.iter() {
            assert_eq!(
                verify_cdi(&GLOBAL, &e.ip_info, &e.ars_infos, &e.cdi_new, &either::Either::Left(e.expiry)),
                Ok(())
            );
            assert_eq!(
                verify_cdi(&GLOBAL, &e.ip_info, &e.ars_infos, &e.cdi_existing, &either::Either::Right(e.existing)),
                Ok(())
            );
            assert!(validate_id_recovery_request(&e.ip_info, &GLOBAL, &e.recovery));
        }
    }
}
