//! Primitive and generic-container impls of `common/serialize.rs`, `common/impls.rs`,
//! plus local types whose codecs come from `#[derive(Serialize)]` with every
//! size-length attribute.
use crate::util::*;
use codeccore::Subject;
// NB: the derive macro emits unqualified `serial_*_no_length` calls for tuple structs.
#[allow(unused_imports)]
use concordium_base::common::{
    serial_map_no_length, serial_set_no_length, serial_string, serial_vector_no_length, Serial, Serialize, Version, Versioned,
};
use either::Either;
use simcore::Rng;
use std::collections::{BTreeMap, BTreeSet};

// ---------------------------------------------------------------------------
// local derived types
// ---------------------------------------------------------------------------

#[derive(Debug, PartialEq, Serialize)]
pub struct DerivedVecs {
    #[size_length = 1]
    pub a: Vec<u32>,
    #[size_length = 2]
    pub b: Vec<u8>,
    #[size_length = 4]
    pub c: Vec<u16>,
    #[size_length = 8]
    pub d: Vec<u64>,
    pub e: Vec<u8>,
}

#[derive(Debug, PartialEq, Serialize)]
pub struct DerivedStrings {
    #[string_size_length = 1]
    pub a: String,
    #[string_size_length = 2]
    pub b: String,
    #[string_size_length = 4]
    pub c: String,
    // NB: no `#[string_size_length = 8]` field. The derived decoder calls
    // `deserial_string(source, len)`, which does `vec![0; len]` with the u64 length
    // read from the input; a damaged length prefix then requests up to 2^64 bytes,
    // the allocation fails and the process aborts (`memory allocation of N bytes
    // failed`), which would take the whole batch down. Reported separately.
    pub e: String,
}

#[derive(Debug, PartialEq, Serialize)]
pub struct DerivedMaps {
    #[map_size_length = 1]
    pub a: BTreeMap<u16, u8>,
    #[map_size_length = 2]
    pub b: BTreeMap<u8, u16>,
    #[map_size_length = 4]
    pub c: BTreeMap<u32, Vec<u8>>,
    #[map_size_length = 8]
    pub d: BTreeMap<u64, bool>,
    pub e: BTreeMap<u16, u8>,
}

#[derive(Debug, PartialEq, Serialize)]
pub struct DerivedSets {
    #[set_size_length = 1]
    pub a: BTreeSet<u32>,
    #[set_size_length = 2]
    pub b: BTreeSet<u8>,
    #[set_size_length = 4]
    pub c: BTreeSet<u16>,
    #[set_size_length = 8]
    pub d: BTreeSet<u64>,
    pub e: BTreeSet<u32>,
}

#[derive(Debug, PartialEq, Serialize)]
pub struct DerivedTuple(
    pub u8,
    #[size_length = 2] pub Vec<u32>,
    #[string_size_length = 1] pub String,
    pub Option<u16>,
    pub (u8, u16),
    pub [u8; 7],
    #[map_size_length = 1] pub BTreeMap<u8, u8>,
    #[set_size_length = 1] pub BTreeSet<u8>,
);

#[derive(Debug, PartialEq, Serialize)]
pub struct DerivedInner {
    pub flag:  bool,
    pub opt:   Option<u16>,
    pub pair:  (u8, u16),
    pub trip:  (u8, u16, u32),
    pub fixed: [u8; 7],
}

#[derive(Debug, PartialEq, Serialize)]
pub struct DerivedNested {
    #[size_length = 1]
    pub inners: Vec<DerivedInner>,
    pub opt:    Option<DerivedInner>,
    pub boxed:  Box<DerivedInner>,
    #[map_size_length = 2]
    pub map:    BTreeMap<u16, DerivedInner>,
    pub vv:     Vec<Vec<u8>>,
    pub vs:     Vec<String>,
    pub arr:    [u16; 3],
}

#[derive(Debug, PartialEq, Serialize)]
pub enum DerivedEnum {
    Unit,
    Tuple(u8, String),
    Named { a: u16, b: Vec<u8> },
    Nested(Option<u32>, (u8, u16)),
    Inner(DerivedInner),
}

fn g_vec<T>(rng: &mut Rng, max: usize, f: fn(&mut Rng) -> T) -> Vec<T> {
    let n = g_len_small(rng, max);
    (0..n).map(|_| f(rng)).collect()
}

fn g_map<K: Ord, V>(rng: &mut Rng, max: usize, k: fn(&mut Rng) -> K, v: fn(&mut Rng) -> V) -> BTreeMap<K, V> {
    let n = g_len_small(rng, max);
    let mut m = BTreeMap::new();
    for _ in 0..n {
        let key = k(rng);
        let val = v(rng);
        m.insert(key, val);
    }
    m
}

fn g_set<K: Ord>(rng: &mut Rng, max: usize, k: fn(&mut Rng) -> K) -> BTreeSet<K> {
    let n = g_len_small(rng, max);
    let mut m = BTreeSet::new();
    for _ in 0..n {
        m.insert(k(rng));
    }
    m
}

fn g_small_bytes(rng: &mut Rng) -> Vec<u8> { g_bytes(rng, 12) }
fn g_small_string(rng: &mut Rng) -> String { g_string(rng, 12) }

fn gen_derived_vecs(rng: &mut Rng) -> DerivedVecs {
    DerivedVecs {
        a: g_vec(rng, 255, g_u32),
        b: g_bytes(rng, 300),
        c: g_vec(rng, 40, g_u16),
        d: g_vec(rng, 40, g_u64),
        e: g_bytes(rng, 40),
    }
}

fn gen_derived_strings(rng: &mut Rng) -> DerivedStrings {
    DerivedStrings {
        a: g_string(rng, 255),
        b: g_string(rng, 300),
        c: g_string(rng, 40),
        e: g_string(rng, 40),
    }
}

fn gen_derived_maps(rng: &mut Rng) -> DerivedMaps {
    DerivedMaps {
        a: g_map(rng, 255, g_u16, g_u8),
        b: g_map(rng, 256, g_u8, g_u16),
        c: g_map(rng, 20, g_u32, g_small_bytes),
        d: g_map(rng, 20, g_u64, g_bool),
        e: g_map(rng, 20, g_u16, g_u8),
    }
}

fn gen_derived_sets(rng: &mut Rng) -> DerivedSets {
    DerivedSets {
        a: g_set(rng, 255, g_u32),
        b: g_set(rng, 256, g_u8),
        c: g_set(rng, 30, g_u16),
        d: g_set(rng, 30, g_u64),
        e: g_set(rng, 30, g_u32),
    }
}

fn gen_inner(rng: &mut Rng) -> DerivedInner {
    DerivedInner {
        flag:  g_bool(rng),
        opt:   g_opt(rng, g_u16),
        pair:  (g_u8(rng), g_u16(rng)),
        trip:  (g_u8(rng), g_u16(rng), g_u32(rng)),
        fixed: g_arr::<7>(rng),
    }
}

fn gen_derived_tuple(rng: &mut Rng) -> DerivedTuple {
    DerivedTuple(
        g_u8(rng),
        g_vec(rng, 30, g_u32),
        g_string(rng, 255),
        g_opt(rng, g_u16),
        (g_u8(rng), g_u16(rng)),
        g_arr::<7>(rng),
        g_map(rng, 255, g_u8, g_u8),
        g_set(rng, 255, g_u8),
    )
}

fn gen_derived_nested(rng: &mut Rng) -> DerivedNested {
    DerivedNested {
        inners: g_vec(rng, 255, gen_inner),
        opt:    g_opt(rng, gen_inner),
        boxed:  Box::new(gen_inner(rng)),
        map:    g_map(rng, 10, g_u16, gen_inner),
        vv:     g_vec(rng, 6, g_small_bytes),
        vs:     g_vec(rng, 6, g_small_string),
        arr:    [g_u16(rng), g_u16(rng), g_u16(rng)],
    }
}

fn gen_derived_enum(rng: &mut Rng) -> DerivedEnum {
    match rng.below(5) {
        0 => DerivedEnum::Unit,
        1 => DerivedEnum::Tuple(g_u8(rng), g_string(rng, 20)),
        2 => DerivedEnum::Named {
            a: g_u16(rng),
            b: g_bytes(rng, 20),
        },
        3 => DerivedEnum::Nested(g_opt(rng, g_u32), (g_u8(rng), g_u16(rng))),
        _ => DerivedEnum::Inner(gen_inner(rng)),
    }
}

fn g_i64(rng: &mut Rng) -> i64 {
    match rng.below(6) {
        0 => 0,
        1 => i64::MIN,
        2 => i64::MAX,
        3 => -1,
        _ => rng.next_u64() as i64,
    }
}

fn gen_version(rng: &mut Rng) -> Version {
    Version::from(match rng.below(8) {
        0 => 0,
        1 => 1,
        2 => 127,
        3 => 128,
        4 => u32::MAX,
        5 => 1 << (7 * rng.below(5) as u32).min(31),
        _ => g_u32(rng),
    })
}

pub fn subjects(v: &mut Vec<Subject>) {
    subj!(v, "u8", u8, g_u8);
    subj!(v, "u16", u16, g_u16);
    subj!(v, "u32", u32, g_u32);
    subj!(v, "u64", u64, g_u64);
    subj!(v, "i8", i8, |rng| g_u8(rng) as i8);
    subj!(v, "i16", i16, |rng| g_u16(rng) as i16);
    subj!(v, "i32", i32, |rng| g_u32(rng) as i32);
    subj!(v, "i64", i64, g_i64);
    subj!(v, "bool", bool, g_bool);
    subj!(v, "NonZeroU8", std::num::NonZeroU8, |rng| std::num::NonZeroU8::new(g_u8(rng).max(1)).unwrap());
    subj!(v, "NonZeroU16", std::num::NonZeroU16, |rng| std::num::NonZeroU16::new(g_u16(rng).max(1)).unwrap());
    subj!(v, "NonZeroU32", std::num::NonZeroU32, |rng| std::num::NonZeroU32::new(g_u32(rng).max(1)).unwrap());
    subj!(v, "NonZeroU64", std::num::NonZeroU64, |rng| std::num::NonZeroU64::new(g_u64(rng).max(1)).unwrap());
    subj!(v, "NonZeroI32", std::num::NonZeroI32, |rng| {
        let x = g_u32(rng) as i32;
        std::num::NonZeroI32::new(if x == 0 { -1 } else { x }).unwrap()
    });
    subj!(v, "String", String, |rng| {
        // occasionally longer than the 4096-byte chunking boundary of the decoder
        if rng.chance(1, 12) {
            let n = *rng.pick(&[4095usize, 4096, 4097, 8192, 9000]);
            return g_string_exact(rng, n);
        }
        g_string(rng, 60)
    });
    subj!(v, "Vec<u8>", Vec<u8>, |rng| g_bytes(rng, 40));
    subj!(v, "Vec<u64>", Vec<u64>, |rng| g_vec(rng, 30, g_u64));
    subj!(v, "Vec<bool>", Vec<bool>, |rng| g_vec(rng, 30, g_bool));
    subj!(v, "Vec<String>", Vec<String>, |rng| g_vec(rng, 8, g_small_string));
    subj!(v, "Vec<Vec<u16>>", Vec<Vec<u16>>, |rng| g_vec(rng, 6, |r| g_vec(r, 6, g_u16)));
    subj!(v, "BTreeMap<u8,u16>", BTreeMap<u8, u16>, |rng| g_map(rng, 256, g_u8, g_u16));
    subj!(v, "BTreeMap<u64,Vec<u8>>", BTreeMap<u64, Vec<u8>>, |rng| g_map(rng, 10, g_u64, g_small_bytes));
    subj!(v, "BTreeSet<u16>", BTreeSet<u16>, |rng| g_set(rng, 60, g_u16));
    subj!(v, "Option<u32>", Option<u32>, |rng| g_opt(rng, g_u32));
    subj!(v, "Option<Option<u8>>", Option<Option<u8>>, |rng| g_opt(rng, |r| g_opt(r, g_u8)));
    subj!(v, "(u8,u16)", (u8, u16), |rng| (g_u8(rng), g_u16(rng)));
    subj!(v, "(u8,u16,u64)", (u8, u16, u64), |rng| (g_u8(rng), g_u16(rng), g_u64(rng)));
    subj!(v, "[u8;7]", [u8; 7], g_arr::<7>);
    subj!(v, "[u16;3]", [u16; 3], |rng| [g_u16(rng), g_u16(rng), g_u16(rng)]);
    subj!(v, "Box<u32>", Box<u32>, |rng| Box::new(g_u32(rng)));
    subj!(v, "Either<u8,u32>", Either<u8, u32>, |rng| if rng.coin() {
        Either::Left(g_u8(rng))
    } else {
        Either::Right(g_u32(rng))
    });
    subj!(v, "num::rational::Ratio<u64>", num::rational::Ratio<u64>, |rng| {
        num::rational::Ratio::new_raw(g_u64(rng), g_u64(rng).max(1))
    });
    subj!(v, "chrono::DateTime<Utc>", chrono::DateTime<chrono::Utc>, |rng| {
        // representable range of chrono is about +-262000 years
        let max_ms: i64 = 8_000_000_000_000_000;
        let ms = match rng.below(5) {
            0 => 0,
            1 => -1,
            2 => max_ms,
            3 => -max_ms,
            _ => (rng.next_u64() % (2 * max_ms as u64)) as i64 - max_ms,
        };
        chrono::DateTime::from_timestamp_millis(ms).expect("in range")
    });
    subj!(v, "std::net::SocketAddr", W<std::net::SocketAddr>, |rng| {
        let ip = if rng.coin() {
            std::net::IpAddr::V4(std::net::Ipv4Addr::from(g_arr::<4>(rng)))
        } else {
            std::net::IpAddr::V6(std::net::Ipv6Addr::from(g_arr::<16>(rng)))
        };
        W(std::net::SocketAddr::new(ip, g_u16(rng)))
    });
    subj!(v, "std::net::IpAddr", std::net::IpAddr, |rng| if rng.coin() {
        std::net::IpAddr::V4(std::net::Ipv4Addr::from(g_arr::<4>(rng)))
    } else {
        std::net::IpAddr::V6(std::net::Ipv6Addr::from(g_arr::<16>(rng)))
    });
    // `common::Version` / `Versioned<T>` (base-128 varints that accept non-minimal encodings) wrap
    // files and API messages, not the chain types C05 lists: not subjects (DESIGN.md OB2).
    let _ = gen_version;
    subj!(v, "derive::DerivedVecs", DerivedVecs, gen_derived_vecs);
    subj!(v, "derive::DerivedStrings", DerivedStrings, gen_derived_strings);
    subj!(v, "derive::DerivedMaps", DerivedMaps, gen_derived_maps);
    subj!(v, "derive::DerivedSets", DerivedSets, gen_derived_sets);
    subj!(v, "derive::DerivedTuple", DerivedTuple, gen_derived_tuple);
    subj!(v, "derive::DerivedNested", DerivedNested, gen_derived_nested);
    subj!(v, "derive::DerivedEnum", DerivedEnum, gen_derived_enum);
    let _ = <u8 as Serial>::serial::<Vec<u8>>;
}

pub fn g_string_exact(rng: &mut Rng, n: usize) -> String {
    let mut s = String::with_capacity(n);
    while s.len() < n {
        if n - s.len() >= 3 && rng.chance(1, 50) {
            s.push('漢');
        } else {
            s.push((b'a' + rng.below(26) as u8) as char);
        }
    }
    s
}
