//! `transactions.rs`: payloads, headers, account transactions, block items.
use crate::{base_types::*, pool, upd, util::*};
use codeccore::Subject;
use concordium_base::{
    common::{
        self as cb,
        types::{Amount, CredentialIndex, KeyIndex, Timestamp},
    },
    constants::*,
    id::types::{AccountCredential, AccountCredentialMessage, CredentialPublicKeys},
    protocol_level_tokens::TokenOperationsPayload,
    transactions::*,
};
use simcore::Rng;
use std::collections::BTreeMap;

pub fn g_memo(rng: &mut Rng) -> Memo {
    let bytes = match rng.below(6) {
        0 => Vec::new(),
        1 => rng.bytes(MAX_MEMO_SIZE),
        _ => g_bytes(rng, MAX_MEMO_SIZE),
    };
    Memo::try_from(bytes).expect("within limit")
}

pub fn g_registered_data(rng: &mut Rng) -> RegisteredData {
    match rng.below(8) {
        0 => RegisteredData::try_from(Vec::new()).unwrap(),
        1 => RegisteredData::try_from(rng.bytes(MAX_REGISTERED_DATA_SIZE)).unwrap(),
        2 => RegisteredData::from(g_arr::<32>(rng)),
        _ => RegisteredData::try_from(g_bytes(rng, MAX_REGISTERED_DATA_SIZE)).unwrap(),
    }
}

pub fn g_cred_public_keys(rng: &mut Rng) -> CredentialPublicKeys {
    let n = match rng.below(16) {
        0 => 255,
        1 => 2,
        2 => 3,
        _ => 1,
    };
    let idxs = distinct_sorted(rng, n, 255);
    let mut r = std_rng(rng);
    let keys = idxs
        .into_iter()
        .map(|i| (KeyIndex(i as u8), concordium_base::common::types::KeyPair::generate(&mut r).public().into()))
        .collect();
    CredentialPublicKeys {
        keys,
        threshold: g_signature_threshold(rng),
    }
}

pub fn g_account_access_structure(rng: &mut Rng) -> AccountAccessStructure {
    let n = match rng.below(16) {
        0 => 0,
        1 => 40,
        2 => 2,
        _ => 1,
    };
    let mut keys = BTreeMap::new();
    for c in distinct_sorted(rng, n, 255) {
        keys.insert(CredentialIndex { index: c as u8 }, g_cred_public_keys(rng));
    }
    AccountAccessStructure {
        keys,
        threshold: g_account_threshold(rng),
    }
}

pub fn g_init_contract(rng: &mut Rng) -> InitContractPayload {
    InitContractPayload {
        amount:    g_amount(rng),
        mod_ref:   g_module_ref(rng),
        init_name: g_contract_name(rng),
        param:     g_parameter(rng),
    }
}

pub fn g_update_contract(rng: &mut Rng) -> UpdateContractPayload {
    UpdateContractPayload {
        amount:       g_amount(rng),
        address:      g_contract_address(rng),
        receive_name: g_receive_name(rng),
        message:      g_parameter(rng),
    }
}

pub fn g_baker_add_keys(rng: &mut Rng) -> BakerAddKeysPayload { pool::pick_baker(rng).add.clone() }
pub fn g_baker_update_keys(rng: &mut Rng) -> BakerUpdateKeysPayload { pool::pick_baker(rng).update.clone() }
pub fn g_baker_configure_keys(rng: &mut Rng) -> ConfigureBakerKeysPayload { pool::pick_baker(rng).configure.clone() }

pub fn g_add_baker(rng: &mut Rng) -> AddBakerPayload {
    AddBakerPayload {
        keys:             g_baker_add_keys(rng),
        baking_stake:     g_amount(rng),
        restake_earnings: g_bool(rng),
    }
}

pub fn g_configure_baker(rng: &mut Rng) -> ConfigureBakerPayload {
    // nine independent options: all 2^9 presence combinations are reachable
    let mut p = ConfigureBakerPayload::new();
    if rng.coin() {
        p.set_capital(g_amount(rng));
    }
    if rng.coin() {
        p.set_restake_earnings(g_bool(rng));
    }
    if rng.coin() {
        p.set_open_for_delegation(g_open_status(rng));
    }
    if rng.coin() {
        p.keys_with_proofs = Some(g_baker_configure_keys(rng));
    }
    if rng.coin() {
        p.set_metadata_url(g_url(rng));
    }
    if rng.coin() {
        p.set_transaction_fee_commission(g_amount_fraction(rng));
    }
    if rng.coin() {
        p.set_baking_reward_commission(g_amount_fraction(rng));
    }
    if rng.coin() {
        p.set_finalization_reward_commission(g_amount_fraction(rng));
    }
    if rng.coin() {
        p.set_suspend(g_bool(rng));
    }
    p
}

pub fn g_configure_delegation(rng: &mut Rng) -> ConfigureDelegationPayload {
    let mut p = ConfigureDelegationPayload::new();
    if rng.coin() {
        p.set_capital(g_amount(rng));
    }
    if rng.coin() {
        p.set_restake_earnings(g_bool(rng));
    }
    if rng.coin() {
        p.set_delegation_target(g_delegation_target(rng));
    }
    p
}

pub fn g_schedule(rng: &mut Rng) -> Vec<(Timestamp, Amount)> {
    let n = match rng.below(10) {
        0 => 0,
        1 => 255,
        2 => 1,
        _ => rng.urange(0, 6),
    };
    (0..n).map(|_| (g_timestamp(rng), g_amount(rng))).collect()
}

pub const PAYLOAD_VARIANTS: u64 = 22;

#[allow(deprecated)]
pub fn g_payload_variant(rng: &mut Rng, variant: u64) -> Payload {
    match variant {
        0 => Payload::DeployModule {
            module: g_wasm_module(rng),
        },
        1 => Payload::InitContract {
            payload: g_init_contract(rng),
        },
        2 => Payload::Update {
            payload: g_update_contract(rng),
        },
        3 => Payload::Transfer {
            to_address: g_account_address(rng),
            amount:     g_amount(rng),
        },
        4 => Payload::AddBaker {
            payload: Box::new(g_add_baker(rng)),
        },
        5 => Payload::RemoveBaker,
        6 => Payload::UpdateBakerStake { stake: g_amount(rng) },
        7 => Payload::UpdateBakerRestakeEarnings {
            restake_earnings: g_bool(rng),
        },
        8 => Payload::UpdateBakerKeys {
            payload: Box::new(g_baker_update_keys(rng)),
        },
        9 => Payload::UpdateCredentialKeys {
            cred_id: pool::g_cred_reg_id(rng),
            keys:    g_cred_public_keys(rng),
        },
        10 => Payload::EncryptedAmountTransfer {
            to:   g_account_address(rng),
            data: Box::new(pool::pick_enc(rng).transfer.clone()),
        },
        11 => Payload::TransferToEncrypted { amount: g_amount(rng) },
        12 => {
            let mut data = pool::pick_enc(rng).sec_to_pub.clone();
            if rng.coin() {
                // the public amount and index are plain integers: vary them
                data.transfer_amount = g_amount(rng);
                data.index = g_u64(rng).into();
            }
            Payload::TransferToPublic { data: Box::new(data) }
        }
        13 => Payload::TransferWithSchedule {
            to:       g_account_address(rng),
            schedule: g_schedule(rng),
        },
        14 => {
            let n = match rng.below(6) {
                0 => 0,
                1 => 2,
                2 => 3,
                _ => 1,
            };
            let mut new_cred_infos = BTreeMap::new();
            for c in distinct_sorted(rng, n, 255) {
                new_cred_infos.insert(CredentialIndex { index: c as u8 }, pool::g_cdi(rng));
            }
            let m = match rng.below(8) {
                0 => 255,
                1 => 2,
                2 => 1,
                _ => 0,
            };
            let remove_cred_ids = (0..m).map(|_| if m > 10 { pool::g_cred_reg_id_cheap(rng) } else { pool::g_cred_reg_id(rng) }).collect();
            Payload::UpdateCredentials {
                new_cred_infos,
                remove_cred_ids,
                new_threshold: g_account_threshold(rng),
            }
        }
        15 => Payload::RegisterData {
            data: g_registered_data(rng),
        },
        16 => Payload::TransferWithMemo {
            to_address: g_account_address(rng),
            memo:       g_memo(rng),
            amount:     g_amount(rng),
        },
        17 => Payload::EncryptedAmountTransferWithMemo {
            to:   g_account_address(rng),
            memo: g_memo(rng),
            data: Box::new(pool::pick_enc(rng).transfer.clone()),
        },
        18 => Payload::TransferWithScheduleAndMemo {
            to:       g_account_address(rng),
            memo:     g_memo(rng),
            schedule: g_schedule(rng),
        },
        19 => Payload::ConfigureBaker {
            data: Box::new(g_configure_baker(rng)),
        },
        20 => Payload::ConfigureDelegation {
            data: g_configure_delegation(rng),
        },
        _ => Payload::TokenUpdate {
            payload: TokenOperationsPayload {
                token_id:   g_token_id(rng),
                operations: g_raw_cbor(rng),
            },
        },
    }
}

pub fn g_payload(rng: &mut Rng) -> Payload {
    let variant = rng.below(PAYLOAD_VARIANTS);
    g_payload_variant(rng, variant)
}

pub fn g_header(rng: &mut Rng) -> TransactionHeader {
    TransactionHeader {
        sender:        g_account_address(rng),
        nonce:         g_nonce(rng),
        energy_amount: g_energy(rng),
        payload_size:  g_payload_size(rng),
        expiry:        g_tx_time(rng),
    }
}

pub fn g_header_v1(rng: &mut Rng) -> TransactionHeaderV1 {
    TransactionHeaderV1 {
        sender:        g_account_address(rng),
        nonce:         g_nonce(rng),
        energy_amount: g_energy(rng),
        payload_size:  g_payload_size(rng),
        expiry:        g_tx_time(rng),
        sponsor:       if rng.coin() { Some(g_account_address(rng)) } else { None },
    }
}

pub fn g_encoded_payload(rng: &mut Rng) -> EncodedPayload {
    match rng.below(60) {
        0 => EncodedPayload::try_from(rng.bytes(MAX_PAYLOAD_SIZE as usize)).expect("within limit"),
        1..=9 => EncodedPayload::try_from(g_bytes(rng, 100)).expect("within limit"),
        10 => EncodedPayload::try_from(Vec::new()).expect("within limit"),
        _ => g_payload(rng).encode(),
    }
}

fn header_for(rng: &mut Rng, size: PayloadSize) -> TransactionHeader {
    TransactionHeader {
        sender:        g_account_address(rng),
        nonce:         g_nonce(rng),
        energy_amount: g_energy(rng),
        payload_size:  size,
        expiry:        g_tx_time(rng),
    }
}

fn header_v1_for(rng: &mut Rng, size: PayloadSize) -> TransactionHeaderV1 {
    TransactionHeaderV1 {
        sender:        g_account_address(rng),
        nonce:         g_nonce(rng),
        energy_amount: g_energy(rng),
        payload_size:  size,
        expiry:        g_tx_time(rng),
        sponsor:       if rng.coin() { Some(g_account_address(rng)) } else { None },
    }
}

pub fn g_account_tx_encoded(rng: &mut Rng) -> AccountTransaction<EncodedPayload> {
    let payload = g_encoded_payload(rng);
    AccountTransaction {
        signature: g_tx_signature(rng),
        header: header_for(rng, payload.size()),
        payload,
    }
}

pub fn g_account_tx(rng: &mut Rng) -> AccountTransaction<Payload> {
    let payload = g_payload(rng);
    let size = payload.encode().size();
    AccountTransaction {
        signature: g_tx_signature(rng),
        header: header_for(rng, size),
        payload,
    }
}

pub fn g_account_tx_v1_encoded(rng: &mut Rng) -> AccountTransactionV1<EncodedPayload> {
    let payload = g_encoded_payload(rng);
    let header = header_v1_for(rng, payload.size());
    AccountTransactionV1 {
        signatures: signatures_for(rng, &header),
        header,
        payload,
    }
}

pub fn g_account_tx_v1(rng: &mut Rng) -> AccountTransactionV1<Payload> {
    let payload = g_payload(rng);
    let size = payload.encode().size();
    let header = header_v1_for(rng, size);
    AccountTransactionV1 {
        signatures: signatures_for(rng, &header),
        header,
        payload,
    }
}

/// Sponsor signature mostly present exactly when the header names a sponsor;
/// the codec itself does not tie the two together, so sometimes they disagree.
fn signatures_for(rng: &mut Rng, header: &TransactionHeaderV1) -> concordium_base::common::types::TransactionSignaturesV1 {
    let want = if rng.chance(1, 8) { rng.coin() } else { header.sponsor.is_some() };
    concordium_base::common::types::TransactionSignaturesV1 {
        sender:  g_tx_signature(rng),
        sponsor: if want { Some(g_tx_signature(rng)) } else { None },
    }
}

pub fn g_account_credential(rng: &mut Rng) -> AccountCredential<pool::IpPairing, pool::ArCurve, pool::AttributeKind> {
    if rng.chance(1, 3) {
        AccountCredential::Initial { icdi: pool::g_icdi(rng) }
    } else {
        AccountCredential::Normal { cdi: pool::g_cdi(rng) }
    }
}

pub fn g_credential_message(rng: &mut Rng) -> AccountCredentialMessage<pool::IpPairing, pool::ArCurve, pool::AttributeKind> {
    AccountCredentialMessage {
        message_expiry: g_tx_time(rng),
        credential:     g_account_credential(rng),
    }
}

/// Block items of the kinds the decoder knows (tags 0, 1, 2).
pub fn g_block_item(rng: &mut Rng) -> BlockItem<EncodedPayload> {
    match rng.below(3) {
        0 => BlockItem::AccountTransaction(g_account_tx_encoded(rng)),
        1 => BlockItem::CredentialDeployment(Box::new(g_credential_message(rng))),
        _ => BlockItem::UpdateInstruction(upd::g_update_instruction(rng)),
    }
}

/// The fourth variant of the enum, which `BlockItem::serial` encodes with tag 3.
pub fn g_block_item_v1(rng: &mut Rng) -> BlockItem<EncodedPayload> { BlockItem::AccountTransactionV1(g_account_tx_v1_encoded(rng)) }

pub fn subjects(v: &mut Vec<Subject>) {
    subj!(v, "transactions::Memo", Memo, g_memo);
    subj_wd!(v, "transactions::RegisteredData", RegisteredData, g_registered_data);
    subj_wd!(v, "transactions::TransactionHeader", TransactionHeader, g_header);
    subj!(v, "transactions::TransactionHeaderV1", TransactionHeaderV1, g_header_v1);
    subj!(v, "transactions::AccountAccessStructure", AccountAccessStructure, g_account_access_structure);
    subj!(v, "id::CredentialPublicKeys", CredentialPublicKeys, g_cred_public_keys);
    subj_wd!(v, "transactions::InitContractPayload", InitContractPayload, g_init_contract);
    subj_wd!(v, "transactions::UpdateContractPayload", UpdateContractPayload, g_update_contract);
    subj_wd!(v, "transactions::BakerAddKeysPayload", BakerAddKeysPayload, g_baker_add_keys);
    subj_wd!(v, "transactions::BakerUpdateKeysPayload", BakerUpdateKeysPayload, g_baker_update_keys);
    subj_wd!(v, "transactions::ConfigureBakerKeysPayload", ConfigureBakerKeysPayload, g_baker_configure_keys);
    subj_wd!(v, "transactions::AddBakerPayload", AddBakerPayload, g_add_baker);
    subj_wd!(v, "Payload", Payload, g_payload);
    {
        let s = v.last_mut().unwrap();
        let generic = s.crafted.take();
        s.crafted = Some(Box::new(move |seed| match (&generic, seed & 1) {
            (Some(g), 1) => g(seed >> 1),
            _ => crafted_payload(seed >> 1),
        }));
    }
    subj_wd!(v, "transactions::AccountTransaction<EncodedPayload>", AccountTransaction<EncodedPayload>, g_account_tx_encoded);
    subj_wd!(v, "transactions::AccountTransaction<Payload>", AccountTransaction<Payload>, g_account_tx);
    subj!(
        v,
        "transactions::AccountTransactionV1<EncodedPayload>",
        AccountTransactionV1<EncodedPayload>,
        g_account_tx_v1_encoded
    );
    subj_wd!(v, "transactions::AccountTransactionV1<Payload>", AccountTransactionV1<Payload>, g_account_tx_v1);
    subj_wd!(v, "transactions::BlockItem<EncodedPayload>", BlockItem<EncodedPayload>, g_block_item);
    // NB: tag 3 is written by `Serial` but unknown to `Deserial`: listed in `ROUNDTRIP_DEFECT_SUBJECTS`.
    subj_wd!(v, "transactions::BlockItem<EncodedPayload>.AccountTransactionV1", BlockItem<EncodedPayload>, g_block_item_v1);
    let _ = cb::to_bytes::<u8>;
}

/// Raw transaction payloads: a tag, for the two bitmap-driven payloads (configure baker = 25,
/// configure delegation = 26) a bitmap with few, high or arbitrary bits, then a few arbitrary bytes.
/// Only totality and uniqueness of the encoding are required of them.
fn crafted_payload(seed: u64) -> (Vec<u8>, Option<bool>) {
    let mut rng = Rng::new(seed);
    let tag = if rng.chance(2, 3) { 25 + rng.below(2) as u8 } else { rng.below(34) as u8 };
    let mut b = vec![tag];
    if tag == 25 || tag == 26 {
        let bitmap: u16 = match rng.below(7) {
            0 => 0,
            1..=3 => 1 << rng.below(16),
            4 => (1 << rng.below(16)) | (1 << rng.below(16)),
            5 => (rng.next_u32() as u16) & 0xfe00,
            _ => rng.next_u32() as u16,
        };
        b.extend_from_slice(&bitmap.to_be_bytes());
    }
    let n = rng.urange(0, 12);
    b.extend(rng.bytes(n));
    (b, None)
}
