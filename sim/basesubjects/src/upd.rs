//! `updates.rs`: update payloads, update instructions, chain parameter records
//! and authorization structures.
use crate::{base_types::*, pool, util::*};
use codeccore::Subject;
use concordium_base::{
    base::*,
    common::{self as cb, types::Ratio},
    contracts_common::Duration,
    updates::*,
};
use simcore::Rng;
use std::collections::{BTreeMap, BTreeSet};

pub fn g_protocol_update(rng: &mut Rng) -> ProtocolUpdate {
    // lengths around the 4096-byte boundary where the decoder switches strategy
    let message = if rng.chance(1, 12) {
        let n = *rng.pick(&[4096usize, 4097, 6000]);
        crate::prims::g_string_exact(rng, n)
    } else {
        g_string(rng, 40)
    };
    let specification_url = if rng.chance(1, 12) {
        let n = *rng.pick(&[4096usize, 4097, 5000]);
        crate::prims::g_string_exact(rng, n)
    } else {
        g_string(rng, 40)
    };
    let specification_auxiliary_data = if rng.chance(1, 12) {
        let n = *rng.pick(&[4096usize, 4097, 7000]);
        rng.bytes(n)
    } else {
        g_bytes(rng, 40)
    };
    ProtocolUpdate {
        message,
        specification_url,
        specification_hash: g_hash(rng),
        specification_auxiliary_data,
    }
}

pub fn g_tx_fee_distribution(rng: &mut Rng) -> TransactionFeeDistribution {
    let (baker, gas_account) = g_fraction_pair(rng);
    TransactionFeeDistribution { baker, gas_account }
}

pub fn g_gas_rewards(rng: &mut Rng) -> GASRewards {
    GASRewards {
        baker:              g_amount_fraction(rng),
        finalization_proof: g_amount_fraction(rng),
        account_creation:   g_amount_fraction(rng),
        chain_update:       g_amount_fraction(rng),
    }
}

pub fn g_gas_rewards_v1(rng: &mut Rng) -> GASRewardsV1 {
    GASRewardsV1 {
        baker:            g_amount_fraction(rng),
        account_creation: g_amount_fraction(rng),
        chain_update:     g_amount_fraction(rng),
    }
}

fn g_key_count(rng: &mut Rng) -> usize {
    match rng.below(16) {
        0 => 40,
        1 => 2,
        2 => 3,
        3 => 7,
        _ => 1,
    }
}

pub fn g_update_keys(rng: &mut Rng) -> Vec<UpdatePublicKey> {
    let n = g_key_count(rng);
    let mut r = std_rng(rng);
    (0..n).map(|_| UpdatePublicKey::from(&UpdateKeyPair::generate(&mut r))).collect()
}

pub fn g_hlas<K>(rng: &mut Rng) -> HigherLevelAccessStructure<K> {
    let keys = g_update_keys(rng);
    let threshold = g_update_threshold(rng, keys.len() as u16);
    HigherLevelAccessStructure {
        keys,
        threshold,
        _phantom: Default::default(),
    }
}

pub fn g_access_structure(rng: &mut Rng) -> AccessStructure {
    let n = match rng.below(16) {
        0 => 300,
        1 => 2,
        2 => 5,
        _ => 1,
    };
    let authorized_keys: BTreeSet<UpdateKeysIndex> =
        distinct_sorted(rng, n, u16::MAX as u64).into_iter().map(|i| UpdateKeysIndex::from(i as u16)).collect();
    let threshold = g_update_threshold(rng, authorized_keys.len() as u16);
    AccessStructure {
        authorized_keys,
        threshold,
    }
}

pub fn g_authorizations_v0(rng: &mut Rng) -> AuthorizationsV0 {
    AuthorizationsV0 {
        keys: if rng.chance(1, 10) { Vec::new() } else { g_update_keys(rng) },
        emergency: g_access_structure(rng),
        protocol: g_access_structure(rng),
        election_difficulty: g_access_structure(rng),
        euro_per_energy: g_access_structure(rng),
        micro_gtu_per_euro: g_access_structure(rng),
        foundation_account: g_access_structure(rng),
        mint_distribution: g_access_structure(rng),
        transaction_fee_distribution: g_access_structure(rng),
        param_gas_rewards: g_access_structure(rng),
        pool_parameters: g_access_structure(rng),
        add_anonymity_revoker: g_access_structure(rng),
        add_identity_provider: g_access_structure(rng),
    }
}

pub fn g_authorizations_v1(rng: &mut Rng, with_plt: bool) -> AuthorizationsV1 {
    AuthorizationsV1 {
        v0: g_authorizations_v0(rng),
        cooldown_parameters: g_access_structure(rng),
        time_parameters: g_access_structure(rng),
        create_plt: if with_plt { Some(g_access_structure(rng)) } else { None },
    }
}

pub fn g_root_update(rng: &mut Rng) -> RootUpdate {
    match rng.below(5) {
        0 => RootUpdate::RootKeysUpdate(g_hlas(rng)),
        1 => RootUpdate::Level1KeysUpdate(g_hlas(rng)),
        2 => RootUpdate::Level2KeysUpdate(Box::new(g_authorizations_v0(rng))),
        3 => RootUpdate::Level2KeysUpdateV1(Box::new(g_authorizations_v1(rng, false))),
        _ => RootUpdate::Level2KeysUpdateV2(Box::new(g_authorizations_v1(rng, true))),
    }
}

pub fn g_level1_update(rng: &mut Rng) -> Level1Update {
    match rng.below(4) {
        0 => Level1Update::Level1KeysUpdate(g_hlas(rng)),
        1 => Level1Update::Level2KeysUpdate(Box::new(g_authorizations_v0(rng))),
        2 => Level1Update::Level2KeysUpdateV1(Box::new(g_authorizations_v1(rng, false))),
        _ => Level1Update::Level2KeysUpdateV2(Box::new(g_authorizations_v1(rng, true))),
    }
}

pub fn g_cooldown(rng: &mut Rng) -> CooldownParameters {
    CooldownParameters {
        pool_owner_cooldown: DurationSeconds::from(g_u64(rng)),
        delegator_cooldown:  DurationSeconds::from(g_u64(rng)),
    }
}

pub fn g_timeout_parameters(rng: &mut Rng) -> TimeoutParameters {
    // increase > 1, 0 < decrease < 1, both reduced
    let increase = loop {
        let (a, b) = g_reduced(rng, true);
        if a != b {
            break Ratio::new(a.max(b), a.min(b)).unwrap();
        }
    };
    let decrease = loop {
        let (a, b) = g_reduced(rng, true);
        if a != b {
            break Ratio::new(a.min(b), a.max(b)).unwrap();
        }
    };
    TimeoutParameters::new(Duration::from_millis(g_u64(rng)), increase, decrease).expect("valid timeout parameters")
}

pub fn g_time_parameters(rng: &mut Rng) -> TimeParameters {
    TimeParameters {
        reward_period_length: RewardPeriodLength::from(Epoch::from(g_u64(rng))),
        mint_per_payday:      g_mint_rate(rng),
    }
}

pub fn g_pool_parameters(rng: &mut Rng) -> PoolParameters {
    PoolParameters {
        passive_finalization_commission: g_amount_fraction(rng),
        passive_baking_commission: g_amount_fraction(rng),
        passive_transaction_commission: g_amount_fraction(rng),
        commission_bounds: g_commission_ranges(rng),
        minimum_equity_capital: g_amount(rng),
        capital_bound: CapitalBound {
            bound: g_amount_fraction(rng),
        },
        leverage_bound: g_leverage(rng),
    }
}

pub fn g_fin_committee(rng: &mut Rng) -> FinalizationCommitteeParameters {
    FinalizationCommitteeParameters {
        min_finalizers: g_u32(rng),
        max_finalizers: g_u32(rng),
        finalizers_relative_stake_threshold: g_pphk(rng),
    }
}

pub fn g_create_plt(rng: &mut Rng) -> CreatePlt {
    CreatePlt {
        token_id: g_token_id(rng),
        token_module: g_hash(rng),
        decimals: g_u8(rng),
        initialization_parameters: g_raw_cbor(rng),
    }
}

pub fn g_mint_v0(rng: &mut Rng) -> MintDistributionV0 {
    let (a, b) = g_fraction_pair(rng);
    MintDistributionV0 {
        mint_per_slot:       g_mint_rate(rng),
        baking_reward:       a,
        finalization_reward: b,
    }
}

pub fn g_mint_v1(rng: &mut Rng) -> MintDistributionV1 {
    let (a, b) = g_fraction_pair(rng);
    MintDistributionV1 {
        baking_reward:       a,
        finalization_reward: b,
    }
}

pub const UPDATE_PAYLOAD_VARIANTS: u64 = 24;

pub fn g_update_payload_variant(rng: &mut Rng, variant: u64) -> UpdatePayload {
    match variant {
        0 => UpdatePayload::Protocol(g_protocol_update(rng)),
        1 => UpdatePayload::ElectionDifficulty(ElectionDifficulty::new(g_parts(rng)).unwrap()),
        2 => UpdatePayload::EuroPerEnergy(g_exchange_rate(rng)),
        3 => UpdatePayload::MicroGTUPerEuro(g_exchange_rate(rng)),
        4 => UpdatePayload::FoundationAccount(g_account_address(rng)),
        5 => UpdatePayload::MintDistribution(g_mint_v0(rng)),
        6 => UpdatePayload::TransactionFeeDistribution(g_tx_fee_distribution(rng)),
        7 => UpdatePayload::GASRewards(g_gas_rewards(rng)),
        8 => UpdatePayload::BakerStakeThreshold(BakerParameters {
            minimum_threshold_for_baking: g_amount(rng),
        }),
        9 => UpdatePayload::Root(g_root_update(rng)),
        10 => UpdatePayload::Level1(g_level1_update(rng)),
        11 => UpdatePayload::AddAnonymityRevoker(Box::new(pool::g_ar_info(rng))),
        12 => UpdatePayload::AddIdentityProvider(Box::new(pool::g_ip_info(rng))),
        13 => UpdatePayload::CooldownParametersCPV1(g_cooldown(rng)),
        14 => UpdatePayload::PoolParametersCPV1(g_pool_parameters(rng)),
        15 => UpdatePayload::TimeParametersCPV1(g_time_parameters(rng)),
        16 => UpdatePayload::MintDistributionCPV1(g_mint_v1(rng)),
        17 => UpdatePayload::GASRewardsCPV2(g_gas_rewards_v1(rng)),
        18 => UpdatePayload::TimeoutParametersCPV2(g_timeout_parameters(rng)),
        19 => UpdatePayload::MinBlockTimeCPV2(Duration::from_millis(g_u64(rng))),
        20 => UpdatePayload::BlockEnergyLimitCPV2(g_energy(rng)),
        21 => UpdatePayload::FinalizationCommitteeParametersCPV2(g_fin_committee(rng)),
        22 => UpdatePayload::ValidatorScoreParametersCPV3(ValidatorScoreParameters {
            max_missed_rounds: g_u64(rng),
        }),
        _ => UpdatePayload::CreatePlt(g_create_plt(rng)),
    }
}

/// `ProtocolUpdate::deserial` bounds the URL allocation by the *message* length
/// (`if message_len <= 4096 { deserial_string(.., url_len) }`), so a damaged URL
/// length makes `vec![0; url_len]` request up to 2^63 bytes; the allocation fails
/// and the process aborts (`memory allocation of N bytes failed`), which ends the
/// whole batch. Subjects that contain a `ProtocolUpdate` are therefore only
/// generated when `VERIF_C05_ABORTING_SUBJECTS=1`.
pub fn include_aborting() -> bool {
    // Always on: the abort was repaired in /repo (fix: deserial_bytes / deserial_string), and on a
    // tree where it comes back the check's process-isolation mode reports the aborting run.
    true
}

/// All variants (variant 0 = `Protocol` included).
pub fn g_update_add_ar(rng: &mut Rng) -> UpdatePayload { g_update_payload_variant(rng, 11) }

pub fn g_update_add_ip(rng: &mut Rng) -> UpdatePayload { g_update_payload_variant(rng, 12) }

pub fn g_update_payload_all(rng: &mut Rng) -> UpdatePayload {
    let variant = rng.below(UPDATE_PAYLOAD_VARIANTS);
    g_update_payload_variant(rng, variant)
}

/// All variants except `Protocol` (see `include_aborting`).
pub fn g_update_payload_no_protocol(rng: &mut Rng) -> UpdatePayload {
    let variant = rng.range(1, UPDATE_PAYLOAD_VARIANTS - 1);
    g_update_payload_variant(rng, variant)
}

pub fn g_update_payload(rng: &mut Rng) -> UpdatePayload {
    if include_aborting() {
        g_update_payload_all(rng)
    } else {
        g_update_payload_no_protocol(rng)
    }
}

pub fn g_update_signature(rng: &mut Rng) -> UpdateInstructionSignature {
    let n = match rng.below(12) {
        0 => 300,
        1 => 2,
        2 => 4,
        _ => 1,
    };
    let big = n > 10;
    let mut signatures = BTreeMap::new();
    for i in distinct_sorted(rng, n, u16::MAX as u64) {
        let sig = if big {
            concordium_base::common::types::Signature { sig: rng.bytes(1) }
        } else {
            g_signature_small(rng)
        };
        signatures.insert(UpdateKeysIndex::from(i as u16), sig);
    }
    UpdateInstructionSignature { signatures }
}

pub fn g_update_header(rng: &mut Rng) -> UpdateHeader {
    UpdateHeader {
        seq_number:     UpdateSequenceNumber::from(g_u64(rng)),
        effective_time: g_tx_time(rng),
        timeout:        g_tx_time(rng),
        payload_size:   g_payload_size(rng),
    }
}

pub fn g_update_instruction(rng: &mut Rng) -> UpdateInstruction {
    // the payload is opaque to the instruction codec: a real payload encoding or arbitrary bytes
    let payload = if rng.chance(1, 4) {
        EncodedUpdatePayload::from(g_bytes(rng, 40))
    } else {
        EncodedUpdatePayload::encode(&g_update_payload_all(rng))
    };
    let header = UpdateHeader {
        seq_number:     UpdateSequenceNumber::from(g_u64(rng)),
        effective_time: g_tx_time(rng),
        timeout:        g_tx_time(rng),
        payload_size:   payload.size(),
    };
    UpdateInstruction {
        header,
        payload,
        signatures: g_update_signature(rng),
    }
}

pub fn subjects(v: &mut Vec<Subject>) {
    if include_aborting() {
        subj!(v, "updates::ProtocolUpdate", ProtocolUpdate, g_protocol_update);
    }
    subj_wd!(v, "updates::TransactionFeeDistribution", TransactionFeeDistribution, g_tx_fee_distribution);
    subj_wd!(v, "updates::GASRewards", GASRewards, g_gas_rewards);
    subj_wd!(v, "updates::GASRewardsV1", GASRewardsV1, g_gas_rewards_v1);
    subj_wd!(v, "updates::RootUpdate", RootUpdate, g_root_update);
    subj_wd!(v, "updates::Level1Update", Level1Update, g_level1_update);
    subj!(v, "updates::HigherLevelAccessStructure<RootKeysKind>", HigherLevelAccessStructure<RootKeysKind>, g_hlas::<RootKeysKind>);
    subj!(
        v,
        "updates::HigherLevelAccessStructure<Level1KeysKind>",
        HigherLevelAccessStructure<Level1KeysKind>,
        g_hlas::<Level1KeysKind>
    );
    subj!(v, "updates::AccessStructure", AccessStructure, g_access_structure);
    subj_wd!(v, "updates::AuthorizationsV0", AuthorizationsV0, g_authorizations_v0);
    subj!(v, "updates::BakerParameters", WD<BakerParameters>, |rng| WD(BakerParameters {
        minimum_threshold_for_baking: g_amount(rng),
    }));
    subj_wd!(v, "updates::CooldownParameters", CooldownParameters, g_cooldown);
    subj_wd!(v, "updates::TimeoutParameters", TimeoutParameters, g_timeout_parameters);
    subj!(v, "updates::RewardPeriodLength", RewardPeriodLength, |rng| RewardPeriodLength::from(Epoch::from(g_u64(rng))));
    subj_wd!(v, "updates::TimeParameters", TimeParameters, g_time_parameters);
    subj_wd!(v, "updates::PoolParameters", PoolParameters, g_pool_parameters);
    subj_wd!(v, "updates::FinalizationCommitteeParameters", FinalizationCommitteeParameters, g_fin_committee);
    subj!(v, "updates::ValidatorScoreParameters", WD<ValidatorScoreParameters>, |rng| WD(ValidatorScoreParameters {
        max_missed_rounds: g_u64(rng),
    }));
    subj_wd!(v, "updates::CreatePlt", CreatePlt, g_create_plt);
    subj_wd!(v, "UpdatePayload", UpdatePayload, g_update_payload);
    // the two updates whose body is preceded by its own byte length
    subj_wd!(v, "UpdatePayload::AddAnonymityRevoker", UpdatePayload, g_update_add_ar);
    subj_wd!(v, "UpdatePayload::AddIdentityProvider", UpdatePayload, g_update_add_ip);
    subj_wd!(v, "updates::UpdateHeader", UpdateHeader, g_update_header);
    subj_wd!(v, "updates::UpdateInstructionSignature", UpdateInstructionSignature, g_update_signature);
    subj_wd!(v, "updates::UpdateInstruction", UpdateInstruction, g_update_instruction);
    let _ = cb::to_bytes::<u8>;
}
