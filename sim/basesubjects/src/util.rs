//! Shared helpers: equality/debug wrappers for chain types that lack
//! `PartialEq`/`Debug`, boundary-biased scalar generators, and the bridge from
//! the simulator PRNG to a `rand` 0.8 generator.
use concordium_base::common::{self as cb, Buffer, Deserial, ParseResult, ReadBytesExt, Serial};
use rand::SeedableRng;
use simcore::Rng;
use std::fmt;

/// Wrapper for types that implement `Debug` but not `PartialEq`. Two values are
/// equal when their encodings agree. (`Debug` renderings cannot be compared:
/// curve points print their projective coordinates, which differ between a
/// computed point and the same point after decompression.)
pub struct WD<T>(pub T);

impl<T: Serial> Serial for WD<T> {
    fn serial<B: Buffer>(&self, out: &mut B) { self.0.serial(out) }
}
impl<T: Deserial> Deserial for WD<T> {
    fn deserial<R: ReadBytesExt>(source: &mut R) -> ParseResult<Self> { Ok(WD(T::deserial(source)?)) }
}
impl<T: fmt::Debug + Serial> PartialEq for WD<T> {
    fn eq(&self, other: &Self) -> bool {
        cb::to_bytes(&self.0) == cb::to_bytes(&other.0)
    }
}
impl<T: fmt::Debug> fmt::Debug for WD<T> {
    fn fmt(&self, f: &mut fmt::Formatter<'_>) -> fmt::Result { self.0.fmt(f) }
}

/// Wrapper for types with neither `PartialEq` nor `Debug`: equality and
/// rendering go through the encoding.
pub struct W<T>(pub T);

impl<T: Serial> Serial for W<T> {
    fn serial<B: Buffer>(&self, out: &mut B) { self.0.serial(out) }
}
impl<T: Deserial> Deserial for W<T> {
    fn deserial<R: ReadBytesExt>(source: &mut R) -> ParseResult<Self> { Ok(W(T::deserial(source)?)) }
}
impl<T: Serial> PartialEq for W<T> {
    fn eq(&self, other: &Self) -> bool { cb::to_bytes(&self.0) == cb::to_bytes(&other.0) }
}
impl<T: Serial> fmt::Debug for W<T> {
    fn fmt(&self, f: &mut fmt::Formatter<'_>) -> fmt::Result {
        write!(f, "enc:{}", hex::encode(cb::to_bytes(&self.0)))
    }
}

/// `subj!(v, "name", Type, gen)` for types with `PartialEq + Debug`,
/// `subj_wd!` for `Debug`-only types, `subj_w!` for types with neither.
#[macro_export]
macro_rules! subj {
    ($v:ident, $name:expr, $t:ty, $gen:expr) => {
        $v.push(codeccore::base_subject::<$t>($name, $gen));
    };
}
#[macro_export]
macro_rules! subj_wd {
    ($v:ident, $name:expr, $t:ty, $gen:path) => {
        $v.push(codeccore::base_subject::<$crate::util::WD<$t>>($name, |rng| $crate::util::WD($gen(rng))));
    };
}
#[macro_export]
macro_rules! subj_w {
    ($v:ident, $name:expr, $t:ty, $gen:path) => {
        $v.push(codeccore::base_subject::<$crate::util::W<$t>>($name, |rng| $crate::util::W($gen(rng))));
    };
}

/// A `rand` 0.8 generator that is a pure function of the simulator PRNG state.
pub fn std_rng(rng: &mut Rng) -> rand::rngs::StdRng { rand::rngs::StdRng::seed_from_u64(rng.next_u64()) }

pub fn g_u64(rng: &mut Rng) -> u64 {
    match rng.below(10) {
        0 => 0,
        1 => u64::MAX,
        2 => 1,
        3 => rng.below(256),
        4 => 1u64 << rng.below(64),
        5 => u64::MAX - rng.below(4),
        _ => rng.next_u64(),
    }
}

pub fn g_u32(rng: &mut Rng) -> u32 {
    match rng.below(8) {
        0 => 0,
        1 => u32::MAX,
        2 => 1,
        3 => rng.below(256) as u32,
        4 => 1u32 << rng.below(32),
        _ => rng.next_u32(),
    }
}

pub fn g_u16(rng: &mut Rng) -> u16 {
    match rng.below(8) {
        0 => 0,
        1 => u16::MAX,
        2 => 1,
        3 => 255,
        4 => 256,
        _ => rng.next_u32() as u16,
    }
}

pub fn g_u8(rng: &mut Rng) -> u8 {
    match rng.below(8) {
        0 => 0,
        1 => u8::MAX,
        2 => 1,
        3 => 127,
        4 => 128,
        _ => rng.next_u32() as u8,
    }
}

pub fn g_bool(rng: &mut Rng) -> bool { rng.coin() }

/// Length biased towards 0, 1 and `max`.
pub fn g_len(rng: &mut Rng, max: usize) -> usize {
    match rng.below(8) {
        0 => 0,
        1 => 1.min(max),
        2 => max,
        3 => max.saturating_sub(1),
        _ => rng.urange(0, max),
    }
}

/// Length biased towards small values, occasionally up to `max`.
pub fn g_len_small(rng: &mut Rng, max: usize) -> usize {
    match rng.below(10) {
        0 => 0,
        1 => 1.min(max),
        2 => max,
        _ => rng.urange(0, max.min(6)),
    }
}

pub fn g_bytes(rng: &mut Rng, max: usize) -> Vec<u8> {
    let n = g_len(rng, max);
    match rng.below(6) {
        0 => vec![0u8; n],
        1 => vec![0xffu8; n],
        _ => rng.bytes(n),
    }
}

pub fn g_arr<const N: usize>(rng: &mut Rng) -> [u8; N] {
    let mut a = [0u8; N];
    match rng.below(8) {
        0 => {}
        1 => a = [0xff; N],
        _ => a.copy_from_slice(&rng.bytes(N)),
    }
    a
}

const CHARS: &[&str] = &["a", "Z", "0", " ", "-", "/", ":", ".", "é", "ß", "→", "漢", "😀", "\u{0}", "\n", "%"];

/// UTF-8 string of at most `max_bytes` bytes (multi-byte characters included).
pub fn g_string(rng: &mut Rng, max_bytes: usize) -> String {
    let target = g_len(rng, max_bytes);
    let mut s = String::new();
    if rng.chance(1, 3) {
        // plain ASCII, exact length
        while s.len() < target {
            s.push((b'a' + rng.below(26) as u8) as char);
        }
        return s;
    }
    loop {
        let c = *rng.pick(CHARS);
        if s.len() + c.len() > target {
            break;
        }
        s.push_str(c);
    }
    while s.len() < target {
        s.push('x');
    }
    s
}

pub fn g_opt<T>(rng: &mut Rng, f: fn(&mut Rng) -> T) -> Option<T> {
    if rng.chance(1, 3) {
        None
    } else {
        Some(f(rng))
    }
}

/// `n` distinct values in `0..=max`, sorted (n <= max + 1).
pub fn distinct_sorted(rng: &mut Rng, n: usize, max: u64) -> Vec<u64> {
    let mut s = std::collections::BTreeSet::new();
    if n as u64 == max.wrapping_add(1) && max < 100_000 {
        return (0..=max).collect();
    }
    if n > 0 && rng.chance(1, 4) {
        s.insert(0);
    }
    if n > 1 && rng.chance(1, 4) {
        s.insert(max);
    }
    while s.len() < n {
        s.insert(rng.range(0, max));
    }
    s.into_iter().collect()
}
