//! "Artifacts written by the pinned version": stored artifacts of generated modules (machine level,
//! named imports) and of script contracts (chain level, processed imports with their numeric tags),
//! produced once from the reference tree and committed under /verif/golden together with what each
//! one did when it was run. A later build must load them, run them to the same outcome under any
//! interrupt schedule, and write them out again byte for byte. A change that alters the stored
//! format, an import tag or an opcode consistently on the writing *and* the reading side is invisible
//! to every round-trip check inside one build - this is the check that sees it. An artifact version
//! the build no longer supports is skipped (that is the documented way to retire a format).
use crate::{mhost, v1sim};
use serde::{Deserialize, Serialize};
use simcore::{hexser, Recorder, Rng, Scenario, Tier, Violation};

#[derive(Clone, Debug, Serialize, Deserialize)]
pub struct MCase {
    pub plan:    mhost::MPlan,
    #[serde(with = "hexser::bytes")]
    pub stored:  Vec<u8>,
    pub outcome: String,
    pub log_fp:  u64,
}

#[derive(Clone, Debug, Serialize, Deserialize)]
pub struct VCase {
    pub plan:      v1sim::VPlan,
    #[serde(with = "hexser::bytes")]
    pub stored:    Vec<u8>,
    pub outcome:   String,
    pub remaining: u64,
    pub state:     Option<String>,
}

#[derive(Clone, Debug, Serialize, Deserialize, Default)]
pub struct Golden {
    pub machine: Vec<MCase>,
    pub chain:   Vec<VCase>,
}

pub fn make() -> Golden {
    let mut g = Golden::default();
    let mut i = 0u64;
    while g.machine.len() < 40 && i < 4000 {
        let mut rng = Rng::new(0xA47_0000 + i);
        i += 1;
        let mut plan = mhost::generate(&mut rng, Tier::Quick, mhost::MFocus::Resume);
        plan.ref_budget = None;
        if crate::progen::uses_spin(&plan.module) {
            continue;
        }
        if let Some(c) = mhost::golden_make(&plan) {
            // mostly completed runs (result and final memory are part of what is compared)
            if c.outcome.starts_with("success") || g.machine.iter().filter(|x| !x.outcome.starts_with("success")).count() < 10 {
                g.machine.push(c);
            }
        }
    }
    let mut i = 0u64;
    while g.chain.len() < 40 && i < 4000 {
        let mut rng = Rng::new(0xB47_0000 + i);
        i += 1;
        let plan = v1sim::generate(&mut rng, Tier::Quick, v1sim::VFocus::Host);
        if let Some(c) = v1sim::golden_make(&plan) {
            if c.outcome.starts_with("Done") || g.chain.iter().filter(|x| !x.outcome.starts_with("Done")).count() < 8 {
                g.chain.push(c);
            }
        }
    }
    g
}

pub struct GoldenScenario {
    pub golden: Golden,
}

#[derive(Clone, Debug, Serialize, Deserialize)]
pub struct GoldenPlan {
    /// index into machine ‖ chain
    pub case:  usize,
    pub sched: mhost::Sched,
}

impl Scenario for GoldenScenario {
    type Plan = GoldenPlan;

    fn name(&self) -> &'static str { "old-artifacts" }

    fn generate(&self, rng: &mut Rng, _tier: Tier) -> GoldenPlan {
        let n = self.golden.machine.len() + self.golden.chain.len();
        GoldenPlan {
            case:  rng.usize_below(n.max(1)),
            sched: match rng.below(4) {
                0 => mhost::Sched::All,
                1 => mhost::Sched::Alternate(rng.coin()),
                2 => mhost::Sched::Bits(Vec::new()),
                _ => {
                    let k = rng.urange(1, 10);
                    mhost::Sched::Bits((0..k).map(|_| rng.coin()).collect())
                }
            },
        }
    }

    fn execute(&self, plan: &GoldenPlan, rec: &mut Recorder) -> Option<Violation> {
        rec.op();
        rec.log_u64(plan.case as u64);
        let nm = self.golden.machine.len();
        if plan.case < nm {
            mhost::golden_check(&self.golden.machine[plan.case], &plan.sched, rec)
        } else {
            match self.golden.chain.get(plan.case - nm) {
                Some(c) => v1sim::golden_check(c, rec),
                None => None,
            }
        }
    }

    fn shrink(&self, _plan: &GoldenPlan) -> Vec<GoldenPlan> { Vec::new() }
}
