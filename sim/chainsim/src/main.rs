//! chainsim: contracts as coroutines under a simulated chain (C02, C13, C14,
//! C15). The machine-level half (`mhost`) drives `Artifact::run/run_config`
//! under a simulated host; the chain-level half (`v1sim`) drives
//! `v1::invoke_*` / `resume_receive` with a stub of the chain scheduler.
mod golden;
mod mhost;
mod progen;
mod v0sim;
mod v1sim;
mod wasm;

use mhost::{MFocus, MPlan};
use simcore::{Ctx, EngineInfo, Recorder, Rng, Scenario, Tier, Violation};

#[global_allocator]
static ALLOC: simcore::alloc::BigBlockAlloc = simcore::alloc::BigBlockAlloc;

struct MScenario {
    name:  &'static str,
    focus: MFocus,
}

impl Scenario for MScenario {
    type Plan = MPlan;

    fn name(&self) -> &'static str { self.name }

    fn generate(&self, rng: &mut Rng, tier: Tier) -> MPlan { mhost::generate(rng, tier, self.focus) }

    fn execute(&self, plan: &MPlan, rec: &mut Recorder) -> Option<Violation> { mhost::execute(plan, rec) }

    fn shrink(&self, plan: &MPlan) -> Vec<MPlan> { mhost::shrink(plan) }
}

struct VScenario {
    name:  &'static str,
    focus: v1sim::VFocus,
}

impl Scenario for VScenario {
    type Plan = v1sim::VPlan;

    fn name(&self) -> &'static str { self.name }

    fn generate(&self, rng: &mut Rng, tier: Tier) -> v1sim::VPlan { v1sim::generate(rng, tier, self.focus) }

    fn execute(&self, plan: &v1sim::VPlan, rec: &mut Recorder) -> Option<Violation> { v1sim::execute(plan, rec) }

    fn shrink(&self, plan: &v1sim::VPlan) -> Vec<v1sim::VPlan> { v1sim::shrink(plan) }
}

struct ZScenario;

impl Scenario for ZScenario {
    type Plan = v0sim::ZPlan;

    fn name(&self) -> &'static str { "chain-host-v0" }

    fn generate(&self, rng: &mut Rng, tier: Tier) -> v0sim::ZPlan { v0sim::generate(rng, tier) }

    fn execute(&self, plan: &v0sim::ZPlan, rec: &mut Recorder) -> Option<Violation> { v0sim::execute(plan, rec) }

    fn shrink(&self, plan: &v0sim::ZPlan) -> Vec<v0sim::ZPlan> { v0sim::shrink(plan) }
}

fn main() {
    {
        // debugging aid: chainsim --debug-plan <replay or plan json>
        let a: Vec<String> = std::env::args().collect();
        if a.iter().any(|x| x == "--make-golden") {
            // one-off: write the golden artifacts of the current (reference) build to stdout
            println!("{}", serde_json::to_string(&golden::make()).unwrap());
            return;
        }
        if let Some(i) = a.iter().position(|x| x == "--debug-plan") {
            let t = std::fs::read_to_string(&a[i + 1]).expect("read");
            let v: serde_json::Value = serde_json::from_str(&t).expect("json");
            let pv = if v.get("plan").is_some() { v["plan"].clone() } else { v };
            let plan: mhost::MPlan = serde_json::from_value(pv).expect("plan");
            mhost::debug_run(&plan);
            return;
        }
    }
    let mut ctx = Ctx::from_args("chainsim");
    let prop = ctx.property.clone();
    let info = match prop.as_str() {
        "C13" => {
            let sc = MScenario {
                name:  "machine-resume",
                focus: MFocus::Resume,
            };
            let n = ctx.count(1_200_000, 40_000_000);
            ctx.run_batch(&sc, n);
            let vs = VScenario {
                name:  "chain-resume",
                focus: v1sim::VFocus::Resume,
            };
            let n = ctx.count(150_000, 5_000_000);
            ctx.run_batch(&vs, n);
            // artifacts stored by the pinned version
            let path = ctx.root.join("golden").join("artifacts_v1.json");
            match std::fs::read_to_string(&path).ok().and_then(|t| serde_json::from_str::<golden::Golden>(&t).ok()) {
                Some(g) if !g.machine.is_empty() && !g.chain.is_empty() => {
                    let n = ctx.count(2_000, 40_000);
                    ctx.run_batch(&golden::GoldenScenario { golden: g }, n);
                }
                _ => ctx.harness_error(format!("cannot read {}", path.display())),
            }
            EngineInfo {
                rule: "generated structured Wasm programs (nested block/loop/if, br/br_if/br_table with and without carried values, direct and indirect calls, memory, globals, host calls at any depth) run under a simulated host; per program a reference run with every host call inline, then runs under seeded interrupt schedules (all / alternating / random bit vectors over the dynamic host-call ordinals), from the stored zero-copy and owned artifact, twice, and with another execution interleaved while suspended; non-trivial = at least one suspend/resume or writer fault fired, distinct by event-log fingerprint".into(),
                explanation: "C13: event log (charges, host calls with arguments and memory length, call tracking), outcome (value / trap text / out of energy) and final memory+globals digest must be identical across all of these; re-serialising a loaded artifact is byte-identical; a failing writer makes storing fail".into(),
                time_unit: "interpreter steps (dispatched instructions) + artifact bytes written",
                state_measure: "not used by this engine (0)",
                fault_kinds: &["suspend_resume", "reentry_while_suspended", "energy_exhausted", "artifact_writer_fault", "short_write", "write_eintr"],
                probe_names: &["has_host_calls", "trap_outcome", "frame_limit", "ref_step_limit", "ran_zero_copy_artifact", "ran_old_artifact", "old_artifact_version_retired"],
                real: vec!["concordium-wasm (parse, validate, metering transformation, compile, artifact output/input, interpreter) from /repo's working tree"],
                stub: vec!["host functions = SimHost with fixed deterministic semantics (in /verif)", "num_enum derive (stub crate)"],
                assumptions: vec![
                    "programs come from /verif's generator (well-typed by construction, accepted by the repository's validator or the run is a harness error)".into(),
                    "conformance of results to the Wasm specification is NOT decided here (C01 is not applicable to this technique)".into(),
                ],
            }
        }
        "C02" => {
            let sc = MScenario {
                name:  "machine-metering",
                focus: MFocus::Metering,
            };
            let n = ctx.count(500_000, 16_000_000);
            ctx.run_batch(&sc, n);
            // chain level: the engine's own energy accounting (InterpreterEnergy) through v1::invoke_receive
            let vs = VScenario {
                name:  "chain-energy",
                focus: v1sim::VFocus::Energy,
            };
            let n = ctx.count(150_000, 5_000_000);
            ctx.run_batch(&vs, n);
            EngineInfo {
                rule: "generated structured Wasm programs compiled with injected metering (cost V0/V1, validation V0/V1), including endless zero-cost loops that only out-of-energy can end; the simulated host is the energy authority and the injected fault is energy exhaustion exactly at, one below and above chosen charge points; non-trivial = at least one energy cut or suspension fired, distinct by event-log fingerprint".into(),
                explanation: "C02: the instruction charges of a completed run equal the cost schedule (frozen V0/V1 price list in /verif) summed over the instructions the real interpreter executed - reported by the program's shadow-counting twin, run unmetered - and on a trapping run are not less (evaluated when the twin makes the same host calls and ends the same way, on programs that write no local inside expression-nested control constructs); identical executions charge identically (also interrupted and from the stored artifact); budgets T, T+1, T+d change only the remainder; a budget one below a charge point ends in out-of-energy with exactly the reference log's prefix (nothing after the charge happened); interpreter steps between positive charges stay below code_size*(depth+3)+64 (watchdog through hook H3), i.e. execution is bounded linearly by the budget; memory length seen by the host never exceeds what was announced; chain level (second batch, script contracts through v1::invoke_receive/resume_receive with the engine's own InterpreterEnergy): remaining energy = budget - charges for budgets used and used+17, every smaller budget - in particular used-1 - ends in out-of-energy, also when the last charge is the one for memory growth".into(),
                time_unit: "interpreter steps (dispatched instructions)",
                state_measure: "not used by this engine (0)",
                fault_kinds: &["energy_cut_at_charge_point", "energy_exhausted", "suspend_resume", "reentry_while_suspended"],
                probe_names: &[
                    "has_host_calls",
                    "trap_outcome",
                    "frame_limit",
                    "ran_zero_copy_artifact",
                    "cost_twin_compared",
                    "cost_twin_trap",
                    "cost_twin_diverged",
                    "memory_growth_is_last_charge",
                ],
                real: vec![
                    "concordium-wasm (metering transformation, compile, interpreter) from /repo's working tree",
                    "concordium-smart-contract-engine v1 (InterpreterEnergy, invoke_receive/resume_receive) for the chain-energy batch",
                ],
                stub: vec!["energy authority and host functions = SimHost (in /verif)", "num_enum derive (stub crate)"],
                assumptions: vec![
                    "the price list of the cost-schedule oracle is a frozen copy in /verif (chainsim/src/wasm.rs static_cost, call_cost, branch_cost)".into(),
                    "programs come from /verif's generator; conformance of the interpreter to Wasm semantics is not decided (C01)".into(),
                ],
            }
        }
        "C14" => {
            let vs = VScenario {
                name:  "chain-host",
                focus: v1sim::VFocus::Host,
            };
            let n = ctx.count(150_000, 6_000_000);
            ctx.run_batch(&vs, n);
            let n = ctx.count(300_000, 10_000_000);
            ctx.run_batch(&ZScenario, n);
            EngineInfo {
                rule: "generated script contracts (straight-line sequences of v1 host calls with valid and hostile pointer / length / offset / handle arguments, re-entrant calls of the same instance that modify, only read, reject or trap, transfers, calls and queries answered by the chain stub as scripted, parameter sets P4-P7, initial state in memory or lazily loaded from the simulated disk) executed through v1::invoke_receive / resume_receive; energy exhaustion injected at seeded fractions of the energy the transaction needs; non-trivial = an interrupt, re-entry, rollback or energy cut happened, distinct by event-log fingerprint".into(),
                explanation: "C14 (v1 interface): the invocation ends as success / reject / trap / out-of-energy (a panic or a bounds assertion is a violation); pointers or lengths outside memory trap; every result and every byte delivered to the contract, the return value, and the committed state and its hash equal the reference model of the host interface; budgets = used, used+17 change only the remainder; any smaller budget gives out-of-energy and leaves the original state untouched; fresh and stored artifact agree".into(),
                time_unit: "interpreter energy consumed",
                state_measure: "not used by this engine (0)",
                fault_kinds: &["interrupt_resume", "reentry", "nested_failure_rollback", "energy_cut"],
                probe_names: &[
                    "trap_outcome",
                    "reject_outcome",
                    "reference_out_of_energy",
                    "state_loaded_lazily_from_disk",
                    "ran_stored_artifact",
                    "script_has_hash_or_signature_call",
                    "script_has_environment_getter",
                    "script_has_upgrade",
                    "script_has_p6_p7_query",
                    "script_has_oversized_invoke_payload",
                ],
                real: vec!["concordium-smart-contract-engine v1 (invoke_receive, resume_receive, host functions, InstanceState, trie) and concordium-wasm from /repo's working tree"],
                stub: vec![
                    "chain scheduler (instance table, call stack, commit / rollback, state_updated, responses) = /verif stub; the real one is Haskell outside this repository",
                    "secp256k1 (always fails), ed25519-zebra (over dalek), slab, num_enum: stub crates; signature host functions are not exercised",
                ],
                assumptions: vec![
                    "second batch (chain-host-v0): script contracts over the legacy host functions (write/load/resize_state, log_event, parameter access, accept/simple_transfer/send/combine) through v0::invoke_receive against a model of the flat state (16 KiB limit), logs and the action tree; observations are reported through two final log events".into(),
                    "upgrade, policy sections, signature checks and hashing host functions are NOT exercised by this check".into(),
                    "the energy *amounts* are not compared with the cost schedule; only totality, monotonicity and the remainder".into(),
                    "commit rule of the stub: a successful re-entrant call that reports state_changed replaces the caller's state and resumes it with state_updated = true".into(),
                ],
            }
        }
        "C15" => {
            let mut info = triesim::run_trie_batches(&mut ctx, "C15");
            let vs = VScenario {
                name:  "chain-handles",
                focus: v1sim::VFocus::Handles,
            };
            let n = ctx.count(300_000, 10_000_000);
            ctx.run_batch(&vs, n);
            info.rule = format!("{}; PLUS contract-visible half: script contracts that open iterators and look up / create entries, then invoke (re-entrant calls of the same instance that modify and succeed, modify and fail, or only read; transfers; calls of other contracts) and use the old handles and iterators afterwards", info.rule);
            info.explanation = format!("{}; contract-visible: return codes of state_* host functions equal the reference model; after a resume with state_updated every old entry and iterator id is invalid and yields no data, without it they stay valid; locks of live iterators refuse create / delete / delete_prefix", info.explanation);
            info.real.push("concordium-smart-contract-engine v1 (invoke_receive, resume_receive, InstanceState) from /repo's working tree");
            info.stub.push("chain scheduler = /verif stub");
            info
        }
        other => {
            eprintln!("chainsim does not serve property {}", other);
            std::process::exit(2);
        }
    };
    ctx.finish(info);
}
