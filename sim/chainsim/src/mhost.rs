//! chainsim-M: the interpreter as a coroutine under a simulated host. The
//! schedule decides which dynamic host calls suspend the machine; the injected
//! fault is energy exhaustion at a chosen charge point; the artifact is also
//! run from its stored (zero-copy and owned) forms.
use crate::{progen, wasm};
use concordium_wasm::{
    artifact::{Artifact, ArtifactNamedImport, CompiledFunction, RunnableCode},
    machine::{self, ExecutionOutcome, Host, RunResult, RuntimeStack, Value},
    CostConfigurationV0, CostConfigurationV1,
    output::Output,
    types::{FunctionType, Name},
    utils,
    validate::{ValidateImportExport, ValidationConfig},
};
use serde::{Deserialize, Serialize};
use simcore::{
    faultio::{SimWriter, WritePlan},
    Recorder, Rng, Tier, Violation,
};

pub struct AllowEnv;

impl ValidateImportExport for AllowEnv {
    fn validate_import_function(&self, _duplicate: bool, mod_name: &Name, _item_name: &Name, _ty: &FunctionType) -> bool {
        mod_name.as_ref() == "env"
    }

    fn validate_export_function(&self, _item_name: &Name, _ty: &FunctionType) -> bool { true }
}

#[derive(Clone, Debug, Serialize, Deserialize, PartialEq)]
pub enum Sched {
    /// Every host call suspends.
    All,
    /// Even (true) or odd (false) ordinals suspend.
    Alternate(bool),
    /// Bit i (cycled) decides call ordinal i.
    Bits(Vec<bool>),
}

impl Sched {
    fn suspend(&self, ordinal: u32) -> bool {
        match self {
            Sched::All => true,
            Sched::Alternate(even) => (ordinal % 2 == 0) == *even,
            Sched::Bits(b) => !b.is_empty() && b[ordinal as usize % b.len()],
        }
    }
}

#[derive(Clone, Copy, Debug, Serialize, Deserialize, PartialEq, Eq)]
pub enum MFocus {
    /// C13: stored artifacts and interrupted executions.
    Resume,
    /// C02: metering.
    Metering,
}

#[derive(Clone, Debug, Serialize, Deserialize)]
pub struct MPlan {
    pub focus:         MFocus,
    pub module:        wasm::Module,
    pub arg0:          i32,
    pub arg1:          i64,
    pub validation_v1: bool,
    /// 0 = no metering, 1 = cost V0, 2 = cost V1
    pub metering:      u8,
    /// Budget of the reference run (None = practically unbounded).
    pub ref_budget:    Option<u64>,
    pub schedules:     Vec<Sched>,
    /// Charge points (indices, taken modulo the number of charges) at which energy is cut.
    pub cuts:          Vec<u32>,
    pub extra:         u64,
    pub writer:        WritePlan,
    /// Run another execution of the same artifact while the first one is suspended.
    pub reentry:       bool,
    #[serde(default)]
    pub shrunk:        bool,
}

#[derive(Clone, Debug, PartialEq)]
enum Ev {
    InitMem(u32),
    Tick(u64),
    Enter,
    Leave,
    AccountMem(u32),
    Host {
        idx:    u8,
        a:      u64,
        b:      u64,
        memlen: u32,
        res:    Option<u64>,
        ok:     bool,
    },
}

#[derive(Clone, Debug, PartialEq)]
enum Outcome {
    Success { result: Option<i64>, mem_digest: u64, mem_len: usize },
    Trap(String),
    OutOfEnergy,
    FrameLimit,
    StepLimit,
}

const MAX_FRAMES: u32 = 64;
const HUGE: u64 = u64::MAX / 4;

struct SimHost<'a> {
    sched:      Option<&'a Sched>,
    ordinal:    u32,
    energy:     u64,
    log:        Vec<Ev>,
    depth:      u32,
    pending:    Option<Option<(bool, u64)>>,
    oom:        bool,
    frames:     bool,
    /// steps accumulated before the last reset of the hook counter
    steps_total: u64,
    max_gap:    u64,
    max_gap_bound: u64,
    code_len:   u64,
    metered:    bool,
    announced:  u64,
    mem_violation: Option<String>,
    gap_violation: Option<String>,
    suspensions: u32,
    /// sum of all charges made through `tick_energy` / of those made for memory growth
    tick_total:  u64,
    mem_ticks:   u64,
    /// what the shadow-counting twin of the program reported through `env.count`
    counted:     u64,
}

fn mix(mut x: u64) -> u64 {
    x ^= x >> 33;
    x = x.wrapping_mul(0xff51_afd7_ed55_8ccd);
    x ^= x >> 33;
    x = x.wrapping_mul(0xc4ce_b9fe_1a85_ec53);
    x ^ (x >> 33)
}

impl<'a> SimHost<'a> {
    fn new(sched: Option<&'a Sched>, energy: u64, code_len: u64, metered: bool) -> Self {
        SimHost {
            sched,
            ordinal: 0,
            energy,
            log: Vec::new(),
            depth: 0,
            pending: None,
            oom: false,
            frames: false,
            steps_total: 0,
            max_gap: 0,
            max_gap_bound: 0,
            code_len,
            metered,
            announced: 0,
            mem_violation: None,
            gap_violation: None,
            suspensions: 0,
            tick_total: 0,
            mem_ticks: 0,
            counted: 0,
        }
    }

    fn gap_limit(&self) -> u64 { self.code_len * (self.depth as u64 + 3) + 64 }

    fn note_charge(&mut self) {
        let gap = machine::verif_hooks::steps();
        self.steps_total += gap;
        if gap > self.max_gap {
            self.max_gap = gap;
        }
        let lim = self.gap_limit();
        self.max_gap_bound = self.max_gap_bound.max(lim);
        // per-gap watchdog: a charge-free stretch longer than the bound ends the run
        machine::verif_hooks::reset(if self.metered { lim } else { 50_000_000 });
    }

    fn check_memory(&mut self, memlen: usize) {
        if self.metered && self.mem_violation.is_none() && (memlen as u64) > self.announced * 65536 {
            self.mem_violation = Some(format!(
                "memory is {} bytes but only {} pages were announced to the host",
                memlen, self.announced
            ));
        }
    }
}

impl Host<ArtifactNamedImport> for SimHost<'_> {
    type Interrupt = ();

    fn tick_initial_memory(&mut self, num_pages: u32) -> RunResult<()> {
        self.announced += num_pages as u64;
        self.log.push(Ev::InitMem(num_pages));
        Ok(())
    }

    fn call(&mut self, f: &ArtifactNamedImport, memory: &mut [u8], stack: &mut RuntimeStack) -> RunResult<Option<()>> {
        if f.matches("concordium_metering", "account_memory") {
            let n = unsafe { stack.peek_u32() };
            self.announced += n as u64;
            self.log.push(Ev::AccountMem(n));
            // growth is paid for like any other charge
            self.mem_ticks += n as u64 * 100;
            return self.tick_energy(n as u64 * 100).map(|_| None);
        }
        if f.matches("env", "count") {
            // shadow counting twin: not a host call of the program, no ordinal, no log entry
            let c = unsafe { stack.pop_u64() };
            self.counted += c;
            return Ok(None);
        }
        self.check_memory(memory.len());
        let name = f.get_item_name();
        let idx = name.as_bytes().get(1).map_or(9, |c| c - b'0');
        let ord = self.ordinal;
        self.ordinal += 1;
        let memlen = memory.len() as u32;
        let (a, b, res, ok): (u64, u64, Option<(bool, u64)>, bool) = match idx {
            0 => (0, 0, Some((false, mix(ord as u64) & 0xffff_ffff)), true),
            1 => {
                let a = unsafe { stack.pop_u32() } as u64;
                let m = memory.get(a as usize & 0xfff).copied().unwrap_or(0) as u64;
                (a, 0, Some((false, mix(a ^ (m << 40) ^ ord as u64) & 0xffff_ffff)), true)
            }
            2 => {
                let b = unsafe { stack.pop_u32() } as u64;
                let a = unsafe { stack.pop_u32() } as u64;
                let len = (b & 31) as usize;
                let end = a as usize + len;
                if end > memory.len() {
                    (a, b, None, false)
                } else {
                    let mut h = ord as u64;
                    for x in &memory[a as usize..end] {
                        h = mix(h ^ *x as u64);
                    }
                    if len >= 4 {
                        memory[a as usize..a as usize + 4].copy_from_slice(&(h as u32).to_le_bytes());
                    }
                    (a, b, Some((false, h & 0xffff_ffff)), true)
                }
            }
            3 => {
                let a = unsafe { stack.pop_u64() };
                (a, 0, Some((true, mix(a ^ ((ord as u64) << 7)))), true)
            }
            4 => {
                let a = unsafe { stack.pop_u32() } as u64;
                (a, 0, None, a != 0x7fff_ffff)
            }
            _ => {
                let v = unsafe { stack.pop_u64() };
                let a = unsafe { stack.pop_u32() } as u64;
                let end = a as usize + 8;
                if end > memory.len() {
                    (a, v, None, false)
                } else {
                    memory[a as usize..end].copy_from_slice(&v.to_le_bytes());
                    (a, v, None, true)
                }
            }
        };
        self.log.push(Ev::Host {
            idx,
            a,
            b,
            memlen,
            res: res.map(|r| r.1),
            ok,
        });
        if !ok {
            anyhow::bail!("host function {} rejected its arguments", name);
        }
        let suspend = self.sched.map_or(false, |s| s.suspend(ord));
        if suspend {
            self.pending = Some(res);
            self.suspensions += 1;
            Ok(Some(()))
        } else {
            if let Some((wide, v)) = res {
                if wide {
                    stack.push_value(v);
                } else {
                    stack.push_value(v as u32);
                }
            }
            Ok(None)
        }
    }

    fn tick_energy(&mut self, energy: u64) -> RunResult<()> {
        if energy > 0 {
            let gap = machine::verif_hooks::steps();
            if self.metered && gap > self.gap_limit() && self.gap_violation.is_none() {
                self.gap_violation = Some(format!("{} interpreter steps without a charge (bound {})", gap, self.gap_limit()));
            }
            self.note_charge();
        }
        if energy > self.energy {
            self.oom = true;
            anyhow::bail!("out of energy");
        }
        self.energy -= energy;
        self.tick_total += energy;
        self.log.push(Ev::Tick(energy));
        Ok(())
    }

    fn track_call(&mut self) -> RunResult<()> {
        self.depth += 1;
        if self.depth > MAX_FRAMES {
            self.frames = true;
            anyhow::bail!("too many frames");
        }
        self.log.push(Ev::Enter);
        Ok(())
    }

    fn track_return(&mut self) {
        self.depth = self.depth.saturating_sub(1);
        self.log.push(Ev::Leave);
    }
}

fn digest(b: &[u8]) -> u64 {
    // whole memory, 8 bytes at a time; all-zero words (the vast majority) are skipped cheaply
    let mut h: u64 = 0xcbf2_9ce4_8422_2325 ^ (b.len() as u64);
    for (i, c) in b.chunks_exact(8).enumerate() {
        let w = u64::from_le_bytes(c.try_into().unwrap());
        if w != 0 {
            h = (h ^ w ^ (i as u64).rotate_left(32)).wrapping_mul(0x0000_0100_0000_01B3);
        }
    }
    h
}

fn drive<C: RunnableCode>(
    art: &Artifact<ArtifactNamedImport, C>,
    host: &mut SimHost,
    args: &[Value],
    reentry: Option<&Artifact<ArtifactNamedImport, CompiledFunction>>,
) -> Outcome {
    machine::verif_hooks::reset(if host.metered { host.gap_limit() } else { 50_000_000 });
    let mut r = art.run(host, "entry", args);
    loop {
        match r {
            Ok(ExecutionOutcome::Success { result, memory }) => {
                host.check_memory(memory.len());
                host.steps_total += machine::verif_hooks::steps();
                return Outcome::Success {
                    result:     result.map(i64::from),
                    mem_digest: digest(&memory),
                    mem_len:    memory.len(),
                };
            }
            Ok(ExecutionOutcome::Interrupted { reason: (), mut config }) => {
                let saved_steps = machine::verif_hooks::steps();
                if let Some(other) = reentry {
                    // another execution on the same code while this one is suspended
                    let mut h2 = SimHost::new(None, 3000, host.code_len, host.metered);
                    let _ = drive(other, &mut h2, &[Value::I32(3), Value::I64(4)], None);
                }
                if let Some(Some((wide, v))) = host.pending.take() {
                    if wide {
                        config.push_value(v);
                    } else {
                        config.push_value(v as u32);
                    }
                }
                // continue the step count of the suspended execution
                let lim = if host.metered { host.gap_limit() } else { 50_000_000 };
                machine::verif_hooks::reset(lim);
                host.steps_total += saved_steps;
                r = art.run_config(host, config);
            }
            Err(e) => {
                host.steps_total += machine::verif_hooks::steps();
                let msg = format!("{:#}", e);
                return if host.oom {
                    Outcome::OutOfEnergy
                } else if host.frames {
                    Outcome::FrameLimit
                } else if msg.contains("verif: step limit") {
                    Outcome::StepLimit
                } else {
                    Outcome::Trap(msg)
                };
            }
        }
    }
}

pub fn generate(rng: &mut Rng, _tier: Tier, focus: MFocus) -> MPlan {
    let metering = match focus {
        MFocus::Metering => rng.range(1, 2) as u8,
        MFocus::Resume => rng.range(0, 2) as u8,
    };
    let spin = metering != 0 && rng.chance(1, 4);
    let validation_v1 = rng.coin();
    let calm_locals = focus == MFocus::Metering && rng.chance(2, 3);
    let module = progen::gen_module(rng, progen::GenOpts {
        sign_ext: validation_v1,
        allow_spin: spin,
        calm_locals,
    });
    let ref_budget = if progen::uses_spin(&module) {
        Some(rng.range(50, 4000))
    } else if metering != 0 && rng.chance(1, 5) {
        Some(rng.range(1, 3000))
    } else {
        None
    };
    let nsched = rng.urange(1, 3);
    let schedules = (0..nsched)
        .map(|_| match rng.below(5) {
            0 => Sched::All,
            1 => Sched::Alternate(rng.coin()),
            _ => {
                let n = rng.urange(1, 12);
                Sched::Bits((0..n).map(|_| rng.coin()).collect())
            }
        })
        .collect();
    let ncuts = if focus == MFocus::Metering { rng.urange(2, 10) } else { rng.urange(0, 2) };
    let mut writer = WritePlan::random_chunking(rng, true);
    if rng.chance(1, 3) {
        let at = rng.range(0, 600);
        if rng.coin() {
            writer.full_at = Some(at)
        } else {
            writer.err_at = Some(at)
        }
    }
    MPlan {
        focus,
        module,
        arg0: match rng.below(4) {
            0 => 0,
            1 => -1,
            _ => rng.next_u32() as i32,
        },
        arg1: rng.next_u64() as i64 >> rng.below(63),
        validation_v1,
        metering,
        ref_budget,
        schedules,
        cuts: (0..ncuts).map(|_| rng.next_u32()).collect(),
        extra: rng.range(1, 1000),
        writer,
        reentry: rng.chance(1, 4),
        shrunk: false,
    }
}

fn v(oracle: &str, sig: &str, detail: String) -> Option<Violation> { Some(Violation::new(oracle, sig, detail, 0)) }

fn first_diff(a: &[Ev], b: &[Ev]) -> String {
    let i = a.iter().zip(b.iter()).position(|(x, y)| x != y).unwrap_or(a.len().min(b.len()));
    format!(
        "logs of {} and {} events differ at event {}: {:?} vs {:?}",
        a.len(),
        b.len(),
        i,
        a.get(i),
        b.get(i)
    )
}

pub fn execute(plan: &MPlan, rec: &mut Recorder) -> Option<Violation> {
    let bytes = wasm::emit(&plan.module);
    let cfg = if plan.validation_v1 { ValidationConfig::V1 } else { ValidationConfig::V0 };
    let inst = match plan.metering {
        0 => utils::instantiate::<ArtifactNamedImport, _>(cfg, &AllowEnv, &bytes),
        1 => utils::instantiate_with_metering::<ArtifactNamedImport>(cfg, CostConfigurationV0, &AllowEnv, &bytes),
        _ => utils::instantiate_with_metering::<ArtifactNamedImport>(cfg, CostConfigurationV1, &AllowEnv, &bytes),
    };
    let art = match inst {
        Ok(i) => i.artifact,
        Err(e) => {
            if plan.shrunk {
                return None;
            }
            // a generated module must be accepted: this is a generator (harness) bug, not a finding
            return Some(Violation::new("harness", "harness/module-rejected", format!("generated module rejected by the validator: {:#}", e), 0));
        }
    };
    rec.op();
    rec.log_bytes(&bytes);
    // linear memories of this plan's executions never exceed the declared maximum
    let max_pages = plan.module.memory.and_then(|m| m.1).unwrap_or(512) as usize;
    simcore::alloc::set_dirty_limit((max_pages + 1) * 65536);
    let metered = plan.metering != 0;
    let code_len: u64 = art.code.iter().map(|c| c.code().len() as u64).sum::<u64>().max(16);
    let args = [Value::I32(plan.arg0), Value::I64(plan.arg1)];
    let budget = plan.ref_budget.unwrap_or(HUGE);
    let resume = plan.focus == MFocus::Resume;
    let metering_focus = plan.focus == MFocus::Metering;

    // 1. reference run: everything inline
    let mut h0 = SimHost::new(None, budget, code_len, metered);
    let o0 = drive(&art, &mut h0, &args, None);
    rec.tick(h0.steps_total);
    rec.log_u64(h0.log.len() as u64);
    rec.log_str(&format!("{:?}", o0));
    if o0 == Outcome::OutOfEnergy {
        rec.fault("energy_exhausted");
    }
    if let Outcome::Trap(_) = o0 {
        rec.probe("trap_outcome");
    }
    if o0 == Outcome::FrameLimit {
        rec.probe("frame_limit");
    }
    if o0 == Outcome::StepLimit {
        if metered {
            if metering_focus {
                return v(
                    "termination",
                    "termination/charge-free-stretch",
                    format!(
                        "a metered run executed more than {} interpreter steps without any charge (code size {} bytes): execution is not bounded by the energy budget",
                        h0.max_gap_bound.max(h0.gap_limit()),
                        code_len
                    ),
                );
            }
            return None;
        }
        rec.probe("ref_step_limit");
        return None;
    }
    if metering_focus {
        if let Some(g) = &h0.gap_violation {
            return v("termination", "termination/gap-bound", g.clone());
        }
        if let Some(m) = &h0.mem_violation {
            return v("memory-announced", "memory-announced", m.clone());
        }
    }
    let nhost = h0.ordinal;
    if nhost > 0 {
        rec.probe("has_host_calls");
    }

    // 2. executed twice
    {
        let mut h = SimHost::new(None, budget, code_len, metered);
        let o = drive(&art, &mut h, &args, None);
        if o != o0 || h.log != h0.log {
            return v(
                "determinism",
                "determinism/double-run",
                format!("two identical executions differ: {:?} vs {:?}; {}", o0, o, first_diff(&h0.log, &h.log)),
            );
        }
    }

    // 2b. the cost schedule summed over the executed instructions (shadow-counting twin, run unmetered)
    if metering_focus && metered && plan.ref_budget.is_none() && !progen::uses_spin(&plan.module) && progen::calm_locals(&plan.module) {
        let twin = wasm::emit_counted(&plan.module, plan.metering);
        let tart = match utils::instantiate::<ArtifactNamedImport, _>(cfg, &AllowEnv, &twin) {
            Ok(i) => i.artifact,
            Err(e) => {
                if plan.shrunk {
                    return None;
                }
                return Some(Violation::new("harness", "harness/twin-rejected", format!("counting twin rejected by the validator: {:#}", e), 0));
            }
        };
        let mut ht = SimHost::new(None, HUGE, code_len, false);
        let ot = drive(&tart, &mut ht, &args, None);
        let charged = h0.tick_total - h0.mem_ticks;
        let same_class = match (&o0, &ot) {
            (Outcome::Success { result: a, mem_digest: d1, mem_len: l1 }, Outcome::Success { result: b, mem_digest: d2, mem_len: l2 }) => a == b && d1 == d2 && l1 == l2,
            (Outcome::Trap(_), Outcome::Trap(_)) => true,
            (Outcome::FrameLimit, Outcome::FrameLimit) => true,
            _ => false,
        };
        let hosts = |l: &[Ev]| l.iter().filter(|e| matches!(e, Ev::Host { .. })).cloned().collect::<Vec<_>>();
        if !same_class || hosts(&h0.log) != hosts(&ht.log) {
            // The twin visibly took another path: the programs are not equivalent for the engine
            // (a conformance matter, C01), so there is nothing to compare charges with. No verdict.
            rec.probe("cost_twin_diverged");
            if std::env::var("VERIF_TWIN_AS_VIOLATION").is_ok() {
                return Some(Violation::new(
                    "twin",
                    "debug/twin-diverged",
                    format!("the counting twin took a different path: {:?} vs {:?}; {}", ot, o0, first_diff(&hosts(&ht.log), &hosts(&h0.log))),
                    0,
                ));
            }
        } else {
            rec.probe("cost_twin_compared");
            rec.log_u64(ht.counted);
            if let Outcome::Success { .. } = o0 {
                if charged != ht.counted {
                    return v(
                        "cost-schedule",
                        if charged < ht.counted { "cost/undercharged" } else { "cost/overcharged" },
                        format!(
                            "the run was charged {} for its instructions, but the cost schedule (V{}) summed over the executed instructions gives {}",
                            charged,
                            plan.metering - 1,
                            ht.counted
                        ),
                    );
                }
            } else {
                rec.probe("cost_twin_trap");
                if charged < ht.counted {
                    return v(
                        "cost-schedule",
                        "cost/undercharged-at-trap",
                        format!(
                            "the run trapped after being charged {} for its instructions, but the instructions executed up to the trap cost {} (schedule V{}): work was done before it was paid for",
                            charged,
                            ht.counted,
                            plan.metering - 1
                        ),
                    );
                }
            }
        }
    }

    // 3. interrupt schedules
    for s in &plan.schedules {
        let mut h = SimHost::new(Some(s), budget, code_len, metered);
        let o = drive(&art, &mut h, &args, if plan.reentry { Some(&art) } else { None });
        rec.tick(h.steps_total);
        if h.suspensions > 0 {
            rec.fault("suspend_resume");
            rec.nontrivial = true;
            rec.log_u64(h.suspensions as u64);
            if plan.reentry {
                rec.fault("reentry_while_suspended");
            }
        }
        if resume && (o != o0 || h.log != h0.log) {
            return v(
                "resume",
                "resume/schedule",
                format!(
                    "execution interrupted at host calls per {:?} and resumed differs from the uninterrupted one: outcome {:?} vs {:?}; {}",
                    s,
                    o,
                    o0,
                    first_diff(&h.log, &h0.log)
                ),
            );
        }
        if metering_focus && h.log != h0.log {
            return v(
                "charging",
                "charging/schedule-dependent",
                format!("charges differ between interrupted and uninterrupted execution: {}", first_diff(&h.log, &h0.log)),
            );
        }
    }

    // 4. stored forms
    let mut stored = Vec::new();
    if let Err(e) = art.output(&mut stored) {
        return v("artifact", "artifact/output-failed", format!("serialising the artifact failed: {:#}", e));
    }
    rec.tick(stored.len() as u64);
    {
        let borrowed = match utils::parse_artifact::<ArtifactNamedImport>(&stored) {
            Ok(b) => b,
            Err(e) => {
                return if resume || metering_focus {
                    v("artifact", "artifact/parse-failed", format!("a stored artifact cannot be loaded: {:#}", e))
                } else {
                    None
                }
            }
        };
        let mut again = Vec::new();
        let _ = borrowed.output(&mut again);
        if resume && again != stored {
            return v(
                "artifact",
                "artifact/reserialise-differs",
                format!("serialising the loaded artifact gives {} bytes that differ from the stored {}", again.len(), stored.len()),
            );
        }
        let sched = plan.schedules.first();
        let mut h = SimHost::new(sched, budget, code_len, metered);
        let o = drive(&borrowed, &mut h, &args, None);
        rec.probe("ran_zero_copy_artifact");
        if (resume || metering_focus) && (o != o0 || h.log != h0.log) {
            return v(
                if resume { "artifact" } else { "charging" },
                if resume { "artifact/zero-copy-run-differs" } else { "charging/stored-artifact" },
                format!(
                    "the stored artifact (zero-copy form) behaves differently from the fresh one: {:?} vs {:?}; {}",
                    o,
                    o0,
                    first_diff(&h.log, &h0.log)
                ),
            );
        }
        let owned: Artifact<ArtifactNamedImport, CompiledFunction> = borrowed.into();
        let mut h = SimHost::new(None, budget, code_len, metered);
        let o = drive(&owned, &mut h, &args, None);
        if (resume || metering_focus) && (o != o0 || h.log != h0.log) {
            return v(
                if resume { "artifact" } else { "charging" },
                if resume { "artifact/owned-run-differs" } else { "charging/stored-artifact" },
                format!("the stored artifact (owned form) behaves differently from the fresh one: {:?} vs {:?}; {}", o, o0, first_diff(&h.log, &h0.log)),
            );
        }
    }
    // 5. storing through a failing writer
    if resume {
        let mut w = SimWriter::new(&plan.writer);
        let r = art.output(&mut w);
        if w.stats.short > 0 {
            rec.fault("short_write");
        }
        if w.stats.interrupted > 0 {
            rec.fault("write_eintr");
        }
        let fired = w.stats.full_fired || w.stats.err_fired;
        if fired {
            rec.fault("artifact_writer_fault");
            if r.is_ok() {
                return v("artifact", "artifact/writer-fault-swallowed", "storing the artifact reported success although the writer refused bytes".into());
            }
        } else {
            if r.is_err() || w.out != stored {
                return v(
                    "artifact",
                    "artifact/chunked-write-differs",
                    format!("storing through a short-writing / interrupting writer gives different bytes ({} vs {})", w.out.len(), stored.len()),
                );
            }
        }
    }

    // 6. energy budgets (metered, reference completed without running out)
    if metered && metering_focus && o0 != Outcome::OutOfEnergy {
        let ticks: Vec<(usize, u64)> =
            h0.log.iter().enumerate().filter_map(|(i, e)| if let Ev::Tick(t) = e { Some((i, *t)) } else { None }).collect();
        // account_memory charges go through tick_energy too, so `ticks` is complete
        let total: u64 = ticks.iter().map(|t| t.1).sum();
        for (b, want_rem) in [(total, 0u64), (total + 1, 1), (total + plan.extra, plan.extra)] {
            let mut h = SimHost::new(None, b, code_len, true);
            let o = drive(&art, &mut h, &args, None);
            if o != o0 || h.energy != want_rem || h.log != h0.log {
                return v(
                    "budget",
                    "budget/larger-budget-changes-more-than-remainder",
                    format!(
                        "total charged {}; with budget {} the outcome is {:?} (unbounded run: {:?}), remaining energy {} (expected {})",
                        total, b, o, o0, h.energy, want_rem
                    ),
                );
            }
        }
        let positive: Vec<usize> = (0..ticks.len()).filter(|i| ticks[*i].1 > 0).collect();
        if !positive.is_empty() {
            for c in &plan.cuts {
                let k = positive[*c as usize % positive.len()];
                let before: u64 = ticks[..k].iter().map(|t| t.1).sum();
                let b = before + ticks[k].1 - 1;
                let mut h = SimHost::new(None, b, code_len, true);
                let o = drive(&art, &mut h, &args, None);
                rec.fault("energy_cut_at_charge_point");
                rec.nontrivial = true;
                let prefix = &h0.log[..ticks[k].0];
                if o != Outcome::OutOfEnergy {
                    return v(
                        "budget",
                        "budget/no-out-of-energy",
                        format!("budget {} is one below the charges up to charge #{} ({}), but the run ended with {:?}", b, k, before + ticks[k].1, o),
                    );
                }
                if h.log != prefix {
                    return v(
                        "budget",
                        "budget/work-before-charge",
                        format!(
                            "with the budget cut at charge #{} the run did not stop exactly there: {}",
                            k,
                            first_diff(&h.log, prefix)
                        ),
                    );
                }
            }
        }
    }
    None
}

pub fn shrink(plan: &MPlan) -> Vec<MPlan> {
    let mut out = Vec::new();
    for m in progen::shrink_module(&plan.module) {
        let mut p = plan.clone();
        p.module = m;
        p.shrunk = true;
        out.push(p);
    }
    if plan.schedules.len() > 1 {
        for s in simcore::driver::shrink_vec(&plan.schedules) {
            if !s.is_empty() {
                let mut p = plan.clone();
                p.schedules = s;
                out.push(p);
            }
        }
    }
    if plan.cuts.len() > 1 {
        for s in simcore::driver::shrink_vec(&plan.cuts) {
            if !s.is_empty() {
                let mut p = plan.clone();
                p.cuts = s;
                out.push(p);
            }
        }
    }
    if plan.reentry {
        let mut p = plan.clone();
        p.reentry = false;
        out.push(p);
    }
    if plan.arg0 != 0 || plan.arg1 != 0 {
        let mut p = plan.clone();
        p.arg0 = 0;
        p.arg1 = 0;
        out.push(p);
    }
    out
}

/// Debugging aid: run the plan's module unmetered, metered (V0, V1) and as counting twins; print the host calls.
pub fn debug_run(plan: &MPlan) {
    let cfg = if plan.validation_v1 { ValidationConfig::V1 } else { ValidationConfig::V0 };
    let args = [Value::I32(plan.arg0), Value::I64(plan.arg1)];
    let bytes = wasm::emit(&plan.module);
    std::fs::write("/var/tmp/dbg_module.wasm", &bytes).ok();
    for (label, art) in [
        ("unmetered", utils::instantiate::<ArtifactNamedImport, _>(cfg, &AllowEnv, &bytes).map(|i| i.artifact)),
        ("metered V0", utils::instantiate_with_metering::<ArtifactNamedImport>(cfg, CostConfigurationV0, &AllowEnv, &bytes).map(|i| i.artifact)),
        ("metered V1", utils::instantiate_with_metering::<ArtifactNamedImport>(cfg, CostConfigurationV1, &AllowEnv, &bytes).map(|i| i.artifact)),
        ("twin V0", utils::instantiate::<ArtifactNamedImport, _>(cfg, &AllowEnv, &wasm::emit_counted(&plan.module, 1)).map(|i| i.artifact)),
        ("twin V1", utils::instantiate::<ArtifactNamedImport, _>(cfg, &AllowEnv, &wasm::emit_counted(&plan.module, 2)).map(|i| i.artifact)),
    ] {
        match art {
            Err(e) => println!("{}: rejected {:#}", label, e),
            Ok(art) => {
                let mut h = SimHost::new(None, HUGE, 1 << 20, false);
                let o = drive(&art, &mut h, &args, None);
                println!("{}: {:?} charged {} (mem {}) counted {}", label, o, h.tick_total, h.mem_ticks, h.counted);
                for e in h.log.iter().filter(|e| matches!(e, Ev::Host { .. })) {
                    println!("    {:?}", e);
                }
            }
        }
    }
}

// ---------------------------------------------------------------------------
// Artifacts written by the pinned version (see golden.rs)
// ---------------------------------------------------------------------------

fn outcome_key(o: &Outcome) -> String {
    match o {
        Outcome::Success { result, mem_digest, mem_len } => format!("success:{:?}:{:016x}:{}", result, mem_digest, mem_len),
        Outcome::Trap(_) => "trap".into(),
        Outcome::OutOfEnergy => "out-of-energy".into(),
        Outcome::FrameLimit => "frame-limit".into(),
        Outcome::StepLimit => "step-limit".into(),
    }
}

fn log_fp(log: &[Ev]) -> u64 {
    let mut h: u64 = 0xcbf2_9ce4_8422_2325;
    for e in log {
        for b in format!("{:?}", e).bytes() {
            h = (h ^ b as u64).wrapping_mul(0x0000_0100_0000_01B3);
        }
    }
    h
}

fn compile(plan: &MPlan) -> Option<Artifact<ArtifactNamedImport, CompiledFunction>> {
    let bytes = wasm::emit(&plan.module);
    let cfg = if plan.validation_v1 { ValidationConfig::V1 } else { ValidationConfig::V0 };
    match plan.metering {
        0 => utils::instantiate::<ArtifactNamedImport, _>(cfg, &AllowEnv, &bytes),
        1 => utils::instantiate_with_metering::<ArtifactNamedImport>(cfg, CostConfigurationV0, &AllowEnv, &bytes),
        _ => utils::instantiate_with_metering::<ArtifactNamedImport>(cfg, CostConfigurationV1, &AllowEnv, &bytes),
    }
    .ok()
    .map(|i| i.artifact)
}

pub fn golden_make(plan: &MPlan) -> Option<crate::golden::MCase> {
    let art = compile(plan)?;
    let max_pages = plan.module.memory.and_then(|m| m.1).unwrap_or(512) as usize;
    simcore::alloc::set_dirty_limit((max_pages + 1) * 65536);
    let code_len: u64 = art.code.iter().map(|c| c.code().len() as u64).sum::<u64>().max(16);
    let args = [Value::I32(plan.arg0), Value::I64(plan.arg1)];
    let mut h = SimHost::new(None, HUGE, code_len, plan.metering != 0);
    let o = drive(&art, &mut h, &args, None);
    if o == Outcome::StepLimit || h.ordinal == 0 {
        return None;
    }
    let mut stored = Vec::new();
    art.output(&mut stored).ok()?;
    Some(crate::golden::MCase {
        plan: plan.clone(),
        stored,
        outcome: outcome_key(&o),
        log_fp: log_fp(&h.log),
    })
}

pub fn golden_check(case: &crate::golden::MCase, sched: &Sched, rec: &mut Recorder) -> Option<Violation> {
    let plan = &case.plan;
    let gv = |sig: &str, d: String| Some(Violation::new("old-artifact", sig, d, 0));
    let max_pages = plan.module.memory.and_then(|m| m.1).unwrap_or(512) as usize;
    simcore::alloc::set_dirty_limit((max_pages + 1) * 65536);
    let borrowed = match utils::parse_artifact::<ArtifactNamedImport>(&case.stored) {
        Ok(b) => b,
        Err(e) => {
            let m = format!("{:#}", e);
            if m.contains("Unsupported artifact version") {
                rec.probe("old_artifact_version_retired");
                return None;
            }
            return gv("old-artifact/parse-failed", format!("an artifact stored by the pinned version can no longer be loaded: {}", m));
        }
    };
    let mut again = Vec::new();
    let _ = borrowed.output(&mut again);
    if again != case.stored {
        return gv(
            "old-artifact/reserialise-differs",
            format!("an artifact stored by the pinned version ({} bytes) is written out differently after loading ({} bytes)", case.stored.len(), again.len()),
        );
    }
    let code_len: u64 = borrowed.code.iter().map(|c| c.code().len() as u64).sum::<u64>().max(16);
    let args = [Value::I32(plan.arg0), Value::I64(plan.arg1)];
    let metered = plan.metering != 0;
    let mut h = SimHost::new(Some(sched), HUGE, code_len, metered);
    let o = drive(&borrowed, &mut h, &args, None);
    rec.tick(h.steps_total);
    if h.suspensions > 0 {
        rec.fault("suspend_resume");
        rec.nontrivial = true;
    }
    rec.probe("ran_old_artifact");
    if outcome_key(&o) != case.outcome || log_fp(&h.log) != case.log_fp {
        return gv(
            "old-artifact/run-differs",
            format!(
                "an artifact stored by the pinned version now behaves differently (zero-copy form, schedule {:?}): outcome {} (recorded {}), event log {}",
                sched,
                outcome_key(&o),
                case.outcome,
                if log_fp(&h.log) == case.log_fp { "equal" } else { "different" }
            ),
        );
    }
    let owned: Artifact<ArtifactNamedImport, CompiledFunction> = borrowed.into();
    let mut h = SimHost::new(None, HUGE, code_len, metered);
    let o = drive(&owned, &mut h, &args, None);
    if outcome_key(&o) != case.outcome || log_fp(&h.log) != case.log_fp {
        return gv("old-artifact/run-differs", format!("an artifact stored by the pinned version now behaves differently (owned form): outcome {} (recorded {})", outcome_key(&o), case.outcome));
    }
    // the module it was compiled from still compiles to the same behaviour
    if let Some(fresh) = compile(plan) {
        let mut h = SimHost::new(None, HUGE, code_len, metered);
        let o = drive(&fresh, &mut h, &args, None);
        if outcome_key(&o) != case.outcome || log_fp(&h.log) != case.log_fp {
            return gv(
                "old-artifact/fresh-compile-differs",
                format!("the module now compiles to an artifact that behaves differently from the one the pinned version stored: outcome {} (recorded {})", outcome_key(&o), case.outcome),
            );
        }
    }
    None
}
