//! Generator of structured, well-typed, terminating-by-construction Wasm
//! programs (except for explicit `Spin` loops that only out-of-energy ends),
//! and statement-level shrinking.
use crate::wasm::*;
use simcore::Rng;

/// Host functions every generated module imports (module "env"). The
/// simulator's host gives them a fixed deterministic meaning.
pub fn host_imports() -> Vec<Import> {
    let s = |p: &[Ty], r: Option<Ty>| Sig {
        params: p.to_vec(),
        result: r,
    };
    vec![
        Import {
            module: "env".into(),
            name:   "h0".into(),
            sig:    s(&[], Some(Ty::I32)),
        },
        Import {
            module: "env".into(),
            name:   "h1".into(),
            sig:    s(&[Ty::I32], Some(Ty::I32)),
        },
        Import {
            module: "env".into(),
            name:   "h2".into(),
            sig:    s(&[Ty::I32, Ty::I32], Some(Ty::I32)),
        },
        Import {
            module: "env".into(),
            name:   "h3".into(),
            sig:    s(&[Ty::I64], Some(Ty::I64)),
        },
        Import {
            module: "env".into(),
            name:   "h4".into(),
            sig:    s(&[Ty::I32], None),
        },
        Import {
            module: "env".into(),
            name:   "h5".into(),
            sig:    s(&[Ty::I32, Ty::I64], None),
        },
    ]
}

#[derive(Clone, Copy)]
pub struct GenOpts {
    /// Sign-extension operators allowed (validation config V1).
    pub sign_ext:   bool,
    /// Allow `Spin` loops (only for metered runs with a finite budget).
    pub allow_spin: bool,
    /// No writes to locals inside control constructs that are nested in an expression (i.e. while
    /// operands may sit on the stack). Programs of this shape stay clear of the engine's known
    /// conformance defects around lazily preserved locals (C01, F1-F3), which the cost-schedule
    /// twin comparison needs: both programs must take the same path.
    pub calm_locals: bool,
}

struct FCtx<'a> {
    rng:      &'a mut Rng,
    opts:     GenOpts,
    locals:   Vec<Ty>,
    nparams:  usize,
    /// label stack: true = loop label (never a branch target of generated br/br_if)
    labels:   Vec<bool>,
    budget:   i32,
    fidx:     usize,
    sigs:     &'a [Sig],
    funcs:    &'a [Sig],
    imports:  &'a [Import],
    globals:  &'a [Global],
    table_sz: u32,
    mem_mask: i32,
    /// Loop counter locals: never read or written by generated code.
    reserved: Vec<u32>,
    /// > 0 while generating inside an `Expr::If` / `Expr::Block`
    in_expr_ctrl: u32,
    /// result type of the function being generated
    result: Option<Ty>,
}

const I32_BIN: [u8; 15] = [0x6a, 0x6b, 0x6c, 0x6d, 0x6e, 0x6f, 0x70, 0x71, 0x72, 0x73, 0x74, 0x75, 0x76, 0x77, 0x78];
const I32_CMP: [u8; 10] = [0x46, 0x47, 0x48, 0x49, 0x4a, 0x4b, 0x4c, 0x4d, 0x4e, 0x4f];
const I64_BIN: [u8; 15] = [0x7c, 0x7d, 0x7e, 0x7f, 0x80, 0x81, 0x82, 0x83, 0x84, 0x85, 0x86, 0x87, 0x88, 0x89, 0x8a];
const I64_CMP: [u8; 10] = [0x51, 0x52, 0x53, 0x54, 0x55, 0x56, 0x57, 0x58, 0x59, 0x5a];

impl FCtx<'_> {
    fn no_local_writes(&self) -> bool { self.opts.calm_locals && self.in_expr_ctrl > 0 }

    fn local_of(&mut self, ty: Ty) -> Option<u32> {
        let c: Vec<u32> = self
            .locals
            .iter()
            .enumerate()
            .filter(|(i, t)| **t == ty && !self.reserved.contains(&(*i as u32)))
            .map(|(i, _)| i as u32)
            .collect();
        if c.is_empty() {
            None
        } else {
            Some(*self.rng.pick(&c))
        }
    }

    fn global_of(&mut self, ty: Ty, need_mut: bool) -> Option<u32> {
        let c: Vec<u32> = self
            .globals
            .iter()
            .enumerate()
            .filter(|(_, g)| g.ty == ty && (!need_mut || g.mutable))
            .map(|(i, _)| i as u32)
            .collect();
        if c.is_empty() {
            None
        } else {
            Some(*self.rng.pick(&c))
        }
    }

    fn konst(&mut self, ty: Ty) -> Expr {
        match ty {
            Ty::I32 => Expr::I32(match self.rng.below(8) {
                0 => 0,
                1 => 1,
                2 => -1,
                3 => i32::MAX,
                4 => i32::MIN,
                5 => self.rng.below(64) as i32,
                _ => self.rng.next_u32() as i32,
            }),
            Ty::I64 => Expr::I64(match self.rng.below(8) {
                0 => 0,
                1 => 1,
                2 => -1,
                3 => i64::MAX,
                4 => i64::MIN,
                5 => self.rng.below(64) as i64,
                _ => self.rng.next_u64() as i64,
            }),
        }
    }

    fn addr(&mut self, d: u32) -> Expr {
        let e = self.expr(Ty::I32, d + 1);
        if self.rng.chance(1, 12) {
            e // may be out of bounds: a trap is an outcome like any other
        } else {
            Expr::Bin(0x71, Box::new(e), Box::new(Expr::I32(self.mem_mask)))
        }
    }

    fn args(&mut self, params: &[Ty], d: u32) -> Vec<Expr> { params.iter().map(|t| self.expr(*t, d + 1)).collect() }

    /// Callees with the wanted result type: internal functions with a higher index (acyclic call graph).
    fn callee(&mut self, result: Option<Ty>) -> Option<u32> {
        let c: Vec<u32> = (self.fidx + 1..self.funcs.len()).filter(|j| self.funcs[*j].result == result).map(|j| j as u32).collect();
        if c.is_empty() {
            None
        } else {
            Some(*self.rng.pick(&c))
        }
    }

    fn host(&mut self, result: Option<Ty>) -> Option<u32> {
        let c: Vec<u32> = self.imports.iter().enumerate().filter(|(_, i)| i.sig.result == result).map(|(i, _)| i as u32).collect();
        if c.is_empty() {
            None
        } else {
            Some(*self.rng.pick(&c))
        }
    }

    pub fn expr(&mut self, ty: Ty, d: u32) -> Expr {
        self.budget -= 1;
        if d >= 5 || self.budget <= 0 {
            return match (self.rng.below(3), self.local_of(ty)) {
                (0, Some(l)) | (1, Some(l)) => Expr::LocalGet(l),
                _ => self.konst(ty),
            };
        }
        match self.rng.below(24) {
            0 | 1 => self.konst(ty),
            2 | 3 | 4 => match self.local_of(ty) {
                Some(l) => Expr::LocalGet(l),
                None => self.konst(ty),
            },
            5 => match self.global_of(ty, false) {
                Some(g) => Expr::GlobalGet(g),
                None => self.konst(ty),
            },
            6 | 7 | 8 => {
                let (ops, divs): (&[u8], [u8; 4]) = match ty {
                    Ty::I32 => (&I32_BIN, [0x6d, 0x6e, 0x6f, 0x70]),
                    Ty::I64 => (&I64_BIN, [0x7f, 0x80, 0x81, 0x82]),
                };
                let op = *self.rng.pick(ops);
                let a = self.expr(ty, d + 1);
                let mut b = self.expr(ty, d + 1);
                if divs.contains(&op) && !self.rng.chance(1, 10) {
                    // mostly avoid division by zero
                    let (or, one) = match ty {
                        Ty::I32 => (0x72, Expr::I32(1)),
                        Ty::I64 => (0x84, Expr::I64(1)),
                    };
                    b = Expr::Bin(or, Box::new(b), Box::new(one));
                }
                Expr::Bin(op, Box::new(a), Box::new(b))
            }
            9 => match ty {
                Ty::I32 => {
                    // comparison or eqz, on either operand type
                    if self.rng.coin() {
                        let a = self.expr(Ty::I32, d + 1);
                        let b = self.expr(Ty::I32, d + 1);
                        Expr::Bin(*self.rng.pick(&I32_CMP), Box::new(a), Box::new(b))
                    } else if self.rng.coin() {
                        let a = self.expr(Ty::I64, d + 1);
                        let b = self.expr(Ty::I64, d + 1);
                        Expr::Bin(*self.rng.pick(&I64_CMP), Box::new(a), Box::new(b))
                    } else if self.rng.coin() {
                        Expr::Un(0x45, Box::new(self.expr(Ty::I32, d + 1)))
                    } else {
                        Expr::Un(0x50, Box::new(self.expr(Ty::I64, d + 1)))
                    }
                }
                Ty::I64 => {
                    let op = if self.rng.coin() { 0xac } else { 0xad };
                    Expr::Un(op, Box::new(self.expr(Ty::I32, d + 1)))
                }
            },
            10 => match ty {
                Ty::I32 => {
                    let mut ops = vec![0x67u8, 0x68, 0x69];
                    if self.opts.sign_ext {
                        ops.extend([0xc0, 0xc1]);
                    }
                    if self.rng.chance(1, 4) {
                        Expr::Un(0xa7, Box::new(self.expr(Ty::I64, d + 1)))
                    } else {
                        Expr::Un(*self.rng.pick(&ops), Box::new(self.expr(Ty::I32, d + 1)))
                    }
                }
                Ty::I64 => {
                    let mut ops = vec![0x79u8, 0x7a, 0x7b];
                    if self.opts.sign_ext {
                        ops.extend([0xc2, 0xc3, 0xc4]);
                    }
                    Expr::Un(*self.rng.pick(&ops), Box::new(self.expr(Ty::I64, d + 1)))
                }
            },
            11 | 12 => {
                let op = match ty {
                    Ty::I32 => *self.rng.pick(&[0x28u8, 0x2c, 0x2d, 0x2e, 0x2f]),
                    Ty::I64 => *self.rng.pick(&[0x29u8, 0x30, 0x31, 0x32, 0x33, 0x34, 0x35]),
                };
                let off = *self.rng.pick(&[0u32, 0, 1, 8, 4000]);
                let a = self.addr(d);
                Expr::Load(op, off, Box::new(a))
            }
            13 | 14 => match self.callee(Some(ty)) {
                Some(f) => {
                    let ps = self.funcs[f as usize].params.clone();
                    let a = self.args(&ps, d);
                    Expr::Call(f, a)
                }
                None => self.konst(ty),
            },
            15 | 16 | 17 => match self.host(Some(ty)) {
                Some(h) => {
                    let ps = self.imports[h as usize].sig.params.clone();
                    let a = self.args(&ps, d);
                    Expr::Host(h, a)
                }
                None => self.konst(ty),
            },
            18 => {
                // call_indirect through the table
                let c: Vec<u32> = self.sigs.iter().enumerate().filter(|(_, s)| s.result == Some(ty)).map(|(i, _)| i as u32).collect();
                if c.is_empty() || self.table_sz == 0 {
                    return self.konst(ty);
                }
                let s = *self.rng.pick(&c);
                let ps = self.sigs[s as usize].params.clone();
                let a = self.args(&ps, d);
                let idx = self.expr(Ty::I32, d + 1);
                let idx = if self.rng.chance(1, 10) {
                    idx
                } else {
                    Expr::Bin(0x70, Box::new(idx), Box::new(Expr::I32(self.table_sz as i32)))
                };
                Expr::CallIndirect(s, Box::new(idx), a)
            }
            19 => {
                let c = self.expr(Ty::I32, d + 1);
                // a value-carrying label is never a target of generated branches
                self.labels.push(true);
                self.in_expr_ctrl += 1;
                let ts = self.stmts(d + 1, 2);
                let te = self.expr(ty, d + 1);
                let es = self.stmts(d + 1, 2);
                let ee = self.expr(ty, d + 1);
                self.in_expr_ctrl -= 1;
                self.labels.pop();
                Expr::If(ty, Box::new(c), ts, Box::new(te), es, Box::new(ee))
            }
            20 => {
                // a value-carrying label is never a target of generated branches
                self.labels.push(true);
                self.in_expr_ctrl += 1;
                let body = self.stmts(d + 1, 2);
                let early = if self.rng.coin() {
                    Some((Box::new(self.expr(ty, d + 1)), Box::new(self.expr(Ty::I32, d + 1))))
                } else {
                    None
                };
                let res = self.expr(ty, d + 1);
                self.in_expr_ctrl -= 1;
                self.labels.pop();
                Expr::Block(ty, body, early, Box::new(res))
            }
            21 => {
                let a = self.expr(ty, d + 1);
                let b = self.expr(ty, d + 1);
                let c = self.expr(Ty::I32, d + 1);
                Expr::Select(Box::new(a), Box::new(b), Box::new(c))
            }
            22 => match ty {
                Ty::I32 => {
                    if self.rng.coin() {
                        Expr::MemorySize
                    } else {
                        Expr::MemoryGrow(Box::new(Expr::I32(*self.rng.pick(&[0, 1, 1, 2, 40]))))
                    }
                }
                Ty::I64 => self.konst(ty),
            },
            _ => match self.local_of(ty) {
                Some(l) if !self.no_local_writes() && ((l as usize) >= self.nparams || self.rng.coin()) => {
                    Expr::LocalTee(l, Box::new(self.expr(ty, d + 1)))
                }
                _ => self.konst(ty),
            },
        }
    }

    fn stmts(&mut self, d: u32, max: usize) -> Vec<Stmt> {
        let n = self.rng.urange(0, max);
        (0..n).map(|_| self.stmt(d)).collect()
    }

    fn branch_target(&mut self) -> Option<u32> {
        let n = self.labels.len();
        let c: Vec<u32> = (0..n).filter(|dpt| !self.labels[n - 1 - dpt]).map(|x| x as u32).collect();
        if c.is_empty() {
            None
        } else {
            Some(*self.rng.pick(&c))
        }
    }

    pub fn stmt(&mut self, d: u32) -> Stmt {
        self.budget -= 1;
        if d >= 4 || self.budget <= 0 {
            return match self.local_of(Ty::I32) {
                Some(l) if !self.no_local_writes() => Stmt::LocalSet(l, Expr::I32(self.rng.below(100) as i32)),
                _ => Stmt::Nop,
            };
        }
        match self.rng.below(22) {
            0 | 1 | 2 => {
                let ty = if self.rng.coin() { Ty::I32 } else { Ty::I64 };
                match self.local_of(ty) {
                    Some(l) if !self.no_local_writes() => Stmt::LocalSet(l, self.expr(ty, d + 1)),
                    Some(_) => Stmt::Drop(self.expr(ty, d + 1)),
                    None => Stmt::Nop,
                }
            }
            3 => {
                let ty = if self.rng.coin() { Ty::I32 } else { Ty::I64 };
                match self.global_of(ty, true) {
                    Some(g) => Stmt::GlobalSet(g, self.expr(ty, d + 1)),
                    None => Stmt::Nop,
                }
            }
            4 | 5 | 6 => {
                let (op, ty) = *self.rng.pick(&[
                    (0x36u8, Ty::I32),
                    (0x3a, Ty::I32),
                    (0x3b, Ty::I32),
                    (0x37, Ty::I64),
                    (0x3c, Ty::I64),
                    (0x3d, Ty::I64),
                    (0x3e, Ty::I64),
                ]);
                let off = *self.rng.pick(&[0u32, 0, 4, 16]);
                let a = self.addr(d);
                let v = self.expr(ty, d + 1);
                Stmt::Store(op, off, a, v)
            }
            7 => {
                let ty = if self.rng.coin() { Ty::I32 } else { Ty::I64 };
                Stmt::Drop(self.expr(ty, d + 1))
            }
            8 => match self.callee(None) {
                Some(f) => {
                    let ps = self.funcs[f as usize].params.clone();
                    let a = self.args(&ps, d);
                    Stmt::Call(f, a)
                }
                None => Stmt::Nop,
            },
            9 | 10 | 11 => match self.host(None) {
                Some(h) => {
                    let ps = self.imports[h as usize].sig.params.clone();
                    let a = self.args(&ps, d);
                    Stmt::Host(h, a)
                }
                None => Stmt::Nop,
            },
            12 | 13 => {
                let c = self.expr(Ty::I32, d + 1);
                self.labels.push(false);
                let mut t = self.stmts(d + 1, 3);
                let e = if self.rng.coin() { self.stmts(d + 1, 2) } else { Vec::new() };
                if !e.is_empty() && self.rng.chance(1, 4) {
                    // the then-branch leaves through an unconditional exit; the else branch stays live
                    if self.rng.coin() {
                        let r = self.result.map(|ty| self.expr(ty, d + 2));
                        t.push(Stmt::Return(r));
                    } else if let Some(target) = self.branch_target() {
                        t.push(Stmt::Br(target));
                    }
                }
                self.labels.pop();
                Stmt::If(c, t, e)
            }
            14 => {
                self.labels.push(false);
                let b = self.stmts(d + 1, 4);
                self.labels.pop();
                Stmt::Block(b)
            }
            15 | 16 => match self.branch_target() {
                Some(t) => Stmt::BrIf(t, self.expr(Ty::I32, d + 1)),
                None => Stmt::Nop,
            },
            17 if self.no_local_writes() => Stmt::Nop,
            17 => {
                // counted loop with its own fresh counter local
                let counter = self.locals.len() as u32;
                self.locals.push(Ty::I32);
                self.reserved.push(counter);
                let count = self.rng.range(1, 4) as u32;
                self.labels.push(true);
                let b = self.stmts(d + 1, 3);
                self.labels.pop();
                Stmt::Loop(counter, count, b)
            }
            18 => {
                let n = self.rng.urange(1, 3);
                let idx = self.expr(Ty::I32, d + 1);
                let mut arms = Vec::new();
                for i in 0..n {
                    // labels visible inside arm i: $a(i+1)..$a(n-1), $out
                    let extra = n - i;
                    for _ in 0..extra {
                        self.labels.push(false);
                    }
                    arms.push(self.stmts(d + 1, 2));
                    for _ in 0..extra {
                        self.labels.pop();
                    }
                }
                Stmt::Switch(idx, arms)
            }
            19 => {
                if self.opts.allow_spin && self.rng.chance(1, 3) {
                    let mut body = Vec::new();
                    for _ in 0..self.rng.urange(0, 3) {
                        body.push(match self.local_of(Ty::I32) {
                            Some(l) if self.rng.coin() => Stmt::Drop(Expr::LocalGet(l)),
                            Some(l) if !self.no_local_writes() => Stmt::LocalSet(l, Expr::I32(7)),
                            _ => Stmt::Drop(Expr::I32(1)),
                        });
                    }
                    Stmt::Spin(body)
                } else {
                    Stmt::Nop
                }
            }
            20 => {
                if self.rng.chance(1, 6) {
                    Stmt::Unreachable
                } else {
                    Stmt::Nop
                }
            }
            _ if self.rng.chance(1, 5) => {
                // a return from inside whatever blocks enclose this statement, guarded so that the rest stays live
                let c = self.expr(Ty::I32, d + 1);
                let r = self.result.map(|t| self.expr(t, d + 1));
                Stmt::If(c, vec![Stmt::Return(r)], Vec::new())
            }
            _ => match self.branch_target() {
                // an unconditional branch guarded by a condition so that the rest stays live
                Some(t) if self.rng.chance(1, 3) => {
                    let c = self.expr(Ty::I32, d + 1);
                    Stmt::If(c, vec![Stmt::Br(t + 1)], Vec::new())
                }
                _ => Stmt::Nop,
            },
        }
    }
}

/// Does any expression in the statement tee-write the given local?
fn tees_local(e: &Expr, local: u32) -> bool {
    match e {
        Expr::LocalTee(l, x) => *l == local || tees_local(x, local),
        Expr::Un(_, a) | Expr::Load(_, _, a) | Expr::MemoryGrow(a) => tees_local(a, local),
        Expr::Bin(_, a, b) => tees_local(a, local) || tees_local(b, local),
        Expr::Call(_, v) | Expr::Host(_, v) => v.iter().any(|x| tees_local(x, local)),
        Expr::CallIndirect(_, i, v) => tees_local(i, local) || v.iter().any(|x| tees_local(x, local)),
        Expr::If(_, c, ts, te, es, ee) => {
            tees_local(c, local)
                || tees_local(te, local)
                || tees_local(ee, local)
                || ts.iter().any(|s| stmt_writes(s, local))
                || es.iter().any(|s| stmt_writes(s, local))
        }
        Expr::Block(_, b, early, r) => {
            b.iter().any(|s| stmt_writes(s, local))
                || early.as_ref().map_or(false, |(a, c)| tees_local(a, local) || tees_local(c, local))
                || tees_local(r, local)
        }
        Expr::Select(a, b, c) => tees_local(a, local) || tees_local(b, local) || tees_local(c, local),
        _ => false,
    }
}

fn stmt_writes(s: &Stmt, local: u32) -> bool {
    match s {
        Stmt::LocalSet(l, e) => *l == local || tees_local(e, local),
        Stmt::GlobalSet(_, e) | Stmt::Drop(e) | Stmt::BrIf(_, e) => tees_local(e, local),
        Stmt::Store(_, _, a, v) => tees_local(a, local) || tees_local(v, local),
        Stmt::Call(_, v) | Stmt::Host(_, v) => v.iter().any(|x| tees_local(x, local)),
        Stmt::If(c, t, e) => tees_local(c, local) || t.iter().any(|s| stmt_writes(s, local)) || e.iter().any(|s| stmt_writes(s, local)),
        Stmt::Block(b) | Stmt::Spin(b) => b.iter().any(|s| stmt_writes(s, local)),
        Stmt::Loop(l, _, b) => *l == local || b.iter().any(|s| stmt_writes(s, local)),
        Stmt::Switch(i, arms) => tees_local(i, local) || arms.iter().any(|a| a.iter().any(|s| stmt_writes(s, local))),
        Stmt::Return(Some(e)) => tees_local(e, local),
        _ => false,
    }
}

/// Generate a module. Function 0 is exported as "entry" with signature
/// (i32, i64) -> i64 and folds the globals into memory before returning.
pub fn gen_module(rng: &mut Rng, opts: GenOpts) -> Module {
    let imports = host_imports();
    let nfuncs = rng.urange(1, 5);
    let sig_pool = [
        Sig {
            params: vec![],
            result: None,
        },
        Sig {
            params: vec![Ty::I32],
            result: Some(Ty::I32),
        },
        Sig {
            params: vec![Ty::I32, Ty::I32],
            result: Some(Ty::I32),
        },
        Sig {
            params: vec![Ty::I64],
            result: Some(Ty::I64),
        },
        Sig {
            params: vec![Ty::I32, Ty::I64],
            result: Some(Ty::I64),
        },
        Sig {
            params: vec![Ty::I32],
            result: None,
        },
        Sig {
            params: vec![],
            result: Some(Ty::I32),
        },
    ];
    let mut fsigs = vec![Sig {
        params: vec![Ty::I32, Ty::I64],
        result: Some(Ty::I64),
    }];
    for _ in 1..nfuncs {
        fsigs.push(rng.pick(&sig_pool).clone());
    }
    // table: internal functions other than 0 (so that call_indirect keeps the call graph acyclic:
    // only function 0 calls through the table) and imported host functions.
    let hosts_only = rng.chance(1, 3);
    let table: Vec<Option<TRef>> = if rng.chance(3, 4) {
        let n = rng.urange(1, 5);
        (0..n)
            .map(|_| {
                if rng.chance(1, 8) {
                    None
                } else if !hosts_only && nfuncs > 1 && rng.chance(3, 5) {
                    Some(TRef::Func(rng.range(1, nfuncs as u64 - 1) as u32))
                } else {
                    Some(TRef::Host(rng.below(imports.len() as u64) as u32))
                }
            })
            .collect()
    } else {
        Vec::new()
    };
    let sigs: Vec<Sig> = if table.is_empty() {
        Vec::new()
    } else {
        // signatures used by call_indirect: those of the table's functions (plus one that may mismatch)
        let mut v: Vec<Sig> = Vec::new();
        for t in table.iter().flatten() {
            let s = match t {
                TRef::Func(f) => fsigs[*f as usize].clone(),
                TRef::Host(h) => imports[*h as usize].sig.clone(),
            };
            if !v.contains(&s) {
                v.push(s);
            }
        }
        let extra = rng.pick(&sig_pool).clone();
        if !v.contains(&extra) {
            v.push(extra);
        }
        v
    };
    let nglobals = rng.urange(0, 3);
    let globals: Vec<Global> = (0..nglobals)
        .map(|_| Global {
            ty:      if rng.coin() { Ty::I32 } else { Ty::I64 },
            mutable: rng.chance(3, 4),
            init:    rng.next_u64() as i64 >> rng.below(60),
        })
        .collect();
    // now and then a memory that starts empty (no data segments then) and has to be grown before use
    let init_pages = if rng.chance(1, 10) { 0 } else { rng.range(1, 2) as u32 };
    let max_pages = Some(init_pages + rng.range(if init_pages == 0 { 1 } else { 0 }, 3) as u32);
    let all_hosts = table.iter().flatten().all(|t| matches!(t, TRef::Host(_)));
    let mut funcs = Vec::new();
    for fi in 0..nfuncs {
        let sig = fsigs[fi].clone();
        let nlocals = rng.urange(1, 4);
        let mut locals: Vec<Ty> = sig.params.clone();
        let declared: Vec<Ty> = (0..nlocals).map(|_| if rng.coin() { Ty::I32 } else { Ty::I64 }).collect();
        locals.extend(declared.iter().copied());
        let mut ctx = FCtx {
            rng,
            opts,
            locals,
            nparams: sig.params.len(),
            labels: Vec::new(),
            budget: if fi == 0 { 70 } else { 35 },
            // indirect calls from functions other than 0 could form cycles: only function 0 uses the table
            fidx: fi,
            // a table of host functions only cannot close a call cycle: every function may call through it
            sigs: if fi == 0 || all_hosts { &sigs } else { &[] },
            funcs: &fsigs,
            imports: &imports,
            globals: &globals,
            table_sz: if fi == 0 || all_hosts { table.len() as u32 } else { 0 },
            mem_mask: 0xff8,
            reserved: Vec::new(),
            in_expr_ctrl: 0,
            result: sig.result,
        };
        let body = ctx.stmts(0, if fi == 0 { 8 } else { 4 });
        let ret = sig.result.map(|t| ctx.expr(t, 1));
        let all_locals = ctx.locals.clone();
        funcs.push(Func {
            sig: sig.clone(),
            locals: all_locals[sig.params.len()..].to_vec(),
            body,
            ret,
        });
    }
    // 0-3 data segments; later ones may overlap earlier ones and end in zero bytes
    let nseg = if init_pages == 0 { 0 } else { *rng.pick(&[0usize, 1, 1, 2, 3]) };
    let mut data: Vec<Data> = Vec::new();
    for k in 0..nseg {
        let offset = if k > 0 && rng.chance(2, 3) {
            // overlap the previous segment
            let p = &data[k - 1];
            if rng.coin() {
                p.offset + rng.range(0, p.bytes.len() as u64) as u32
            } else {
                // the later segment starts below the earlier one (and usually reaches into it)
                p.offset.saturating_sub(rng.range(0, 20) as u32)
            }
        } else {
            rng.range(0, 300) as u32
        };
        let n = rng.urange(1, 40);
        let mut bytes: Vec<u8> = (0..n).map(|_| rng.range(1, 255) as u8).collect();
        match rng.below(4) {
            0 => {
                // zero tail
                let z = rng.urange(1, n);
                for b in bytes.iter_mut().rev().take(z) {
                    *b = 0;
                }
            }
            1 => {
                let i = rng.usize_below(n);
                bytes[i] = 0;
            }
            _ => {}
        }
        data.push(Data { offset, bytes });
    }
    Module {
        sigs,
        imports,
        funcs,
        exports: vec![("entry".into(), 0)],
        memory: Some((init_pages, max_pages)),
        globals,
        table,
        data,
        // (the epilogue stores the globals to memory: not into a memory that may still be empty)
        epilogue_addr: if init_pages == 0 { None } else { Some(0x2000) },
    }
}

/// Smaller modules: drop single statements (depth first), simplify result expressions.
pub fn shrink_module(m: &Module) -> Vec<Module> {
    let mut out = Vec::new();
    for fi in 0..m.funcs.len() {
        let n = m.funcs[fi].body.len();
        // drop halves then singles of the top-level statement list
        for cand in simcore::driver::shrink_vec(&m.funcs[fi].body) {
            if cand.len() < n {
                let mut m2 = m.clone();
                m2.funcs[fi].body = cand;
                out.push(m2);
            }
        }
        // flatten / empty nested bodies
        for si in 0..n {
            let repl: Vec<Stmt> = match &m.funcs[fi].body[si] {
                Stmt::If(_, t, e) if !t.is_empty() || !e.is_empty() => vec![Stmt::Nop],
                Stmt::Loop(l, c, b) if !b.is_empty() => vec![Stmt::Loop(*l, *c, Vec::new()), Stmt::Loop(*l, 1, b.clone())],
                Stmt::Block(b) if !b.is_empty() => vec![Stmt::Block(Vec::new())],
                Stmt::Switch(i, arms) if arms.iter().any(|a| !a.is_empty()) => {
                    vec![Stmt::Switch(i.clone(), arms.iter().map(|_| Vec::new()).collect())]
                }
                _ => Vec::new(),
            };
            for r in repl {
                let mut m2 = m.clone();
                m2.funcs[fi].body[si] = r;
                out.push(m2);
            }
        }
        if let Some(r) = &m.funcs[fi].ret {
            if !matches!(r, Expr::I32(_) | Expr::I64(_)) {
                let mut m2 = m.clone();
                m2.funcs[fi].ret = Some(match m.funcs[fi].sig.result.unwrap() {
                    Ty::I32 => Expr::I32(0),
                    Ty::I64 => Expr::I64(0),
                });
                out.push(m2);
            }
        }
    }
    if !m.data.is_empty() {
        let mut m2 = m.clone();
        m2.data.clear();
        out.push(m2);
    }
    out
}

pub fn uses_spin(m: &Module) -> bool {
    // statements can be nested inside expressions; the serialised form is the simplest complete traversal
    serde_json::to_string(m).map_or(true, |s| s.contains("\"Spin\""))
}

#[allow(dead_code)]
pub fn writes_counter_check(m: &Module) -> bool {
    // self-check used by tests: no loop body writes its own counter
    fn chk(st: &Stmt) -> bool {
        match st {
            Stmt::Loop(l, _, b) => !b.iter().any(|s| stmt_writes(s, *l)) && b.iter().all(chk),
            Stmt::If(_, t, e) => t.iter().all(chk) && e.iter().all(chk),
            Stmt::Block(b) | Stmt::Spin(b) => b.iter().all(chk),
            Stmt::Switch(_, arms) => arms.iter().all(|a| a.iter().all(chk)),
            _ => true,
        }
    }
    m.funcs.iter().all(|f| f.body.iter().all(chk))
}

/// Structural check for `GenOpts::calm_locals`: no local is written inside a control construct
/// that is nested in an expression.
pub fn calm_locals(m: &Module) -> bool {
    fn e_ok(e: &Expr, nested: bool) -> bool {
        match e {
            Expr::I32(_) | Expr::I64(_) | Expr::LocalGet(_) | Expr::GlobalGet(_) | Expr::MemorySize => true,
            Expr::LocalTee(_, x) => !nested && e_ok(x, nested),
            Expr::Un(_, a) | Expr::Load(_, _, a) | Expr::MemoryGrow(a) => e_ok(a, nested),
            Expr::Bin(_, a, b) => e_ok(a, nested) && e_ok(b, nested),
            Expr::Call(_, v) | Expr::Host(_, v) => v.iter().all(|x| e_ok(x, nested)),
            Expr::CallIndirect(_, i, v) => e_ok(i, nested) && v.iter().all(|x| e_ok(x, nested)),
            Expr::If(_, c, ts, te, es, ee) => e_ok(c, nested) && ss_ok(ts, true) && e_ok(te, true) && ss_ok(es, true) && e_ok(ee, true),
            Expr::Block(_, b, early, r) => {
                ss_ok(b, true) && early.as_ref().map_or(true, |(v, c)| e_ok(v, true) && e_ok(c, true)) && e_ok(r, true)
            }
            Expr::Select(a, b, c) => e_ok(a, nested) && e_ok(b, nested) && e_ok(c, nested),
        }
    }
    fn ss_ok(ss: &[Stmt], nested: bool) -> bool { ss.iter().all(|s| s_ok(s, nested)) }
    fn s_ok(s: &Stmt, nested: bool) -> bool {
        match s {
            Stmt::LocalSet(_, e) => !nested && e_ok(e, nested),
            Stmt::GlobalSet(_, e) | Stmt::Drop(e) | Stmt::BrIf(_, e) => e_ok(e, nested),
            Stmt::Store(_, _, a, v) => e_ok(a, nested) && e_ok(v, nested),
            Stmt::Call(_, v) | Stmt::Host(_, v) => v.iter().all(|x| e_ok(x, nested)),
            Stmt::If(c, t, e) => e_ok(c, nested) && ss_ok(t, nested) && ss_ok(e, nested),
            Stmt::Block(b) | Stmt::Spin(b) => ss_ok(b, nested),
            Stmt::Loop(_, _, b) => !nested && ss_ok(b, nested),
            Stmt::Switch(i, arms) => e_ok(i, nested) && arms.iter().all(|a| ss_ok(a, nested)),
            Stmt::Return(e) => e.as_ref().map_or(true, |e| e_ok(e, nested)),
            Stmt::Br(_) | Stmt::Unreachable | Stmt::Nop => true,
        }
    }
    m.funcs.iter().all(|f| ss_ok(&f.body, false) && f.ret.as_ref().map_or(true, |e| e_ok(e, false)))
}
