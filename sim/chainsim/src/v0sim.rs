//! chainsim-V0: script contracts over the legacy (v0) host functions, with a
//! reference model of the flat contract state (16 KiB limit), logs, parameter
//! access and the action tree. v0 contracts cannot return data, so the script
//! reports its observations through two final log events.
use crate::wasm::{self, Data, Expr, Func, Import, Module, Sig, Stmt, Ty};
use concordium_contracts_common::{AccountAddress, Address, Amount, ChainMetadata, ContractAddress, Timestamp};
use concordium_smart_contract_engine::{
    v0::{self, Action, ConcordiumAllowedImports, ProcessedImports, ReceiveContext, ReceiveInvocation, ReceiveResult},
    InterpreterEnergy,
};
use concordium_wasm::{
    artifact::{Artifact, CompiledFunction},
    output::Output,
    utils,
    validate::ValidationConfig,
    CostConfigurationV0,
};
use serde::{Deserialize, Serialize};
use simcore::{hexser, Recorder, Rng, Tier, Violation};

const MEM: u64 = 65536;
const MAX_STATE: usize = 16384;
const MAX_LOG_SIZE: u32 = 512;
const MAX_NUM_LOGS: usize = 64;
const NONE32: u64 = u32::MAX as u64;
const PATTERN_BASE: u32 = 0x100; // 64 bytes 0,1,2,…
const NAME_BASE: u32 = 0x200;
const ADDR_BASE: u32 = 0x240;
const RB_BASE: u32 = 0x6000; // 32 bytes per operation
const RES_BASE: u32 = 0xC000; // 8 bytes per operation
const ZERO_BASE: u32 = 0xD000;
const MAX_OPS: usize = 16;

#[derive(Clone, Debug, Serialize, Deserialize, PartialEq)]
pub enum ZOp {
    /// write_state of `len` bytes (pattern bytes if len <= 64, zeros otherwise) at `off`.
    WriteState { len: u32, off: u32 },
    LoadState { len: u32, off: u32 },
    ResizeState { size: u32 },
    StateSize,
    LogEvent { len: u32 },
    /// `count` calls of log_event in a loop; the result is the sum of their return values
    LogBurst { count: u32, len: u32 },
    ParamSize,
    ParamSection { len: u32, off: u32 },
    Accept,
    SimpleTransfer { amount: u64 },
    /// send to a contract; `name_ok` selects a well-formed receive name
    Send { param_len: u32, name_ok: bool },
    CombineAnd { l: u32, r: u32 },
    CombineOr { l: u32, r: u32 },
    SelfBalance,
    SlotTime,
    /// get_receive_invoker / self_address / owner (0, 1, 2: 32 or 16 bytes into the read buffer) and
    /// get_policy_section(len <= 32, off) (3)
    Getter { func: u8, len: u32, off: u32 },
    /// a pointer/length pair outside linear memory for one of the memory-taking functions
    OutOfBounds { func: u8, ptr: u32, len: u32 },
}

#[derive(Clone, Debug, Serialize, Deserialize)]
pub struct ZPlan {
    pub ops:      Vec<ZOp>,
    #[serde(with = "hexser::bytes")]
    pub state:    Vec<u8>,
    #[serde(with = "hexser::bytes")]
    pub param:    Vec<u8>,
    /// true: parameter limit 1024 and log limits (<= P4); false: 65535 and none
    pub legacy_limits: bool,
    /// final return code (action index or negative reject); None = the last created action
    pub ret:      Option<i32>,
    pub energy:   u64,
    pub cuts:     Vec<u32>,
    #[serde(default)]
    pub shrunk:   bool,
}

const HOSTS: [(&str, &[Ty], Option<Ty>); 18] = [
    ("write_state", &[Ty::I32, Ty::I32, Ty::I32], Some(Ty::I32)),
    ("load_state", &[Ty::I32, Ty::I32, Ty::I32], Some(Ty::I32)),
    ("resize_state", &[Ty::I32], Some(Ty::I32)),
    ("state_size", &[], Some(Ty::I32)),
    ("log_event", &[Ty::I32, Ty::I32], Some(Ty::I32)),
    ("get_parameter_size", &[], Some(Ty::I32)),
    ("get_parameter_section", &[Ty::I32, Ty::I32, Ty::I32], Some(Ty::I32)),
    ("accept", &[], Some(Ty::I32)),
    ("simple_transfer", &[Ty::I32, Ty::I64], Some(Ty::I32)),
    ("send", &[Ty::I64, Ty::I64, Ty::I32, Ty::I32, Ty::I64, Ty::I32, Ty::I32], Some(Ty::I32)),
    ("combine_and", &[Ty::I32, Ty::I32], Some(Ty::I32)),
    ("combine_or", &[Ty::I32, Ty::I32], Some(Ty::I32)),
    ("get_receive_self_balance", &[], Some(Ty::I64)),
    ("get_slot_time", &[], Some(Ty::I64)),
    ("get_receive_owner", &[Ty::I32], None),
    ("get_receive_invoker", &[Ty::I32], None),
    ("get_receive_self_address", &[Ty::I32], None),
    ("get_policy_section", &[Ty::I32, Ty::I32, Ty::I32], Some(Ty::I32)),
];

fn policy_bytes() -> Vec<u8> { (100..140u8).collect() }

fn i32c(x: u32) -> Expr { Expr::I32(x as i32) }

fn src_for(len: u32) -> u32 {
    if len <= 64 {
        PATTERN_BASE
    } else {
        ZERO_BASE
    }
}

pub fn emit_module(plan: &ZPlan) -> Vec<u8> {
    let imports: Vec<Import> = HOSTS
        .iter()
        .map(|(n, p, r)| Import {
            module: "concordium".into(),
            name:   (*n).into(),
            sig:    Sig {
                params: p.to_vec(),
                result: *r,
            },
        })
        .collect();
    let mut body: Vec<Stmt> = Vec::new();
    let n = plan.ops.len().min(MAX_OPS);
    for (i, op) in plan.ops.iter().enumerate().take(MAX_OPS) {
        let rb = RB_BASE + 32 * i as u32;
        if let ZOp::LogBurst { count, len } = op {
            // local 2 = loop counter, local 3 = sum of the results
            body.push(Stmt::LocalSet(3, Expr::I32(0)));
            body.push(Stmt::Loop(2, (*count).max(1), vec![Stmt::LocalSet(
                3,
                Expr::Bin(0x6a, Box::new(Expr::LocalGet(3)), Box::new(Expr::Host(4, vec![i32c(src_for(*len)), i32c(*len)]))),
            )]));
            body.push(Stmt::Store(0x37, 0, i32c(RES_BASE + 8 * i as u32), Expr::Un(0xad, Box::new(Expr::LocalGet(3)))));
            continue;
        }
        let (h, args): (u32, Vec<Expr>) = match op {
            ZOp::WriteState { len, off } => (0, vec![i32c(src_for(*len)), i32c(*len), i32c(*off)]),
            ZOp::LoadState { len, off } => (1, vec![i32c(rb), i32c((*len).min(32)), i32c(*off)]),
            ZOp::ResizeState { size } => (2, vec![i32c(*size)]),
            ZOp::StateSize => (3, vec![]),
            ZOp::LogEvent { len } => (4, vec![i32c(src_for(*len)), i32c(*len)]),
            ZOp::LogBurst { .. } => unreachable!(),
            ZOp::ParamSize => (5, vec![]),
            ZOp::ParamSection { len, off } => (6, vec![i32c(rb), i32c((*len).min(32)), i32c(*off)]),
            ZOp::Accept => (7, vec![]),
            ZOp::SimpleTransfer { amount } => (8, vec![i32c(ADDR_BASE), Expr::I64(*amount as i64)]),
            ZOp::Send { param_len, name_ok } => (9, vec![
                Expr::I64(7),
                Expr::I64(0),
                i32c(if *name_ok { NAME_BASE } else { NAME_BASE + 16 }),
                i32c(5),
                Expr::I64(3),
                i32c(ZERO_BASE),
                i32c(*param_len),
            ]),
            ZOp::CombineAnd { l, r } => (10, vec![i32c(*l), i32c(*r)]),
            ZOp::CombineOr { l, r } => (11, vec![i32c(*l), i32c(*r)]),
            ZOp::SelfBalance => (12, vec![]),
            ZOp::SlotTime => (13, vec![]),
            ZOp::Getter { func, len, off } => match func % 4 {
                0 => (15, vec![i32c(rb)]),
                1 => (16, vec![i32c(rb)]),
                2 => (14, vec![i32c(rb)]),
                _ => (17, vec![i32c(rb), i32c((*len).min(32)), i32c(*off)]),
            },
            ZOp::OutOfBounds { func, ptr, len } => match func % 6 {
                5 => (9, vec![Expr::I64(7), Expr::I64(0), i32c(*ptr), i32c(*len), Expr::I64(3), i32c(ZERO_BASE), i32c(0)]),
                0 => (0, vec![i32c(*ptr), i32c(*len), i32c(0)]),
                1 => (1, vec![i32c(*ptr), i32c(*len), i32c(0)]),
                2 => (4, vec![i32c(*ptr), i32c(*len)]),
                3 => (6, vec![i32c(*ptr), i32c(*len), i32c(0)]),
                _ => (14, vec![i32c(*ptr)]),
            },
        };
        let call = Expr::Host(h, args);
        let res_addr = i32c(RES_BASE + 8 * i as u32);
        match HOSTS[h as usize].2 {
            Some(Ty::I64) => body.push(Stmt::Store(0x37, 0, res_addr, call)),
            Some(Ty::I32) => body.push(Stmt::Store(0x37, 0, res_addr, Expr::Un(0xad, Box::new(call)))),
            None => body.push(Stmt::Host(h, match call {
                Expr::Host(_, a) => a,
                _ => unreachable!(),
            })),
        }
    }
    // observations: two final log events (results, read buffers)
    body.push(Stmt::Drop(Expr::Host(4, vec![i32c(RES_BASE), i32c(8 * n as u32)])));
    body.push(Stmt::Drop(Expr::Host(4, vec![i32c(RB_BASE), i32c(32 * n as u32)])));
    // make sure there is an action to return
    body.push(Stmt::LocalSet(1, Expr::Host(7, vec![])));
    let ret = match plan.ret {
        Some(c) => Expr::I32(c),
        None => Expr::LocalGet(1),
    };
    let f = Func {
        sig:    Sig {
            params: vec![Ty::I64],
            result: Some(Ty::I32),
        },
        locals: vec![Ty::I32, Ty::I32, Ty::I32],
        body,
        ret:    Some(ret),
    };
    let init = Func {
        sig:    Sig {
            params: vec![Ty::I64],
            result: Some(Ty::I32),
        },
        locals: Vec::new(),
        body:   Vec::new(),
        ret:    Some(Expr::I32(0)),
    };
    let m = Module {
        sigs: Vec::new(),
        imports,
        funcs: vec![f, init],
        exports: vec![("c.run".into(), 0), ("init_c".into(), 1)],
        memory: Some((1, Some(1))),
        globals: Vec::new(),
        table: Vec::new(),
        data: vec![
            Data {
                offset: PATTERN_BASE,
                bytes:  (0..64u8).collect(),
            },
            Data {
                offset: NAME_BASE,
                bytes:  b"c.foo".to_vec(),
            },
            Data {
                offset: NAME_BASE + 16,
                bytes:  b"nodot".to_vec(),
            },
            Data {
                offset: ADDR_BASE,
                bytes:  vec![9u8; 32],
            },
        ],
        epilogue_addr: None,
    };
    wasm::emit(&m)
}

// ---------------------------------------------------------------------------
// Reference model
// ---------------------------------------------------------------------------

#[derive(Debug, Clone, PartialEq)]
enum MAction {
    Send(u32),
    Transfer(u64),
    And(u32, u32),
    Or(u32, u32),
    Accept,
}

#[derive(Debug, Clone, PartialEq)]
enum MOut {
    Success { state: Vec<u8>, logs: Vec<Vec<u8>>, actions: Vec<MAction> },
    Reject(i32),
    /// trap / runtime failure (including an invalid action index as return value)
    Fail,
}

struct Model {
    state:   Vec<u8>,
    logs:    Vec<Vec<u8>>,
    actions: Vec<MAction>,
    min_energy: u64,
}

fn mem_src(len: u32) -> Vec<u8> {
    if len <= 64 {
        (0..len as u8).collect()
    } else {
        vec![0u8; len as usize]
    }
}

fn model_run(plan: &ZPlan) -> (MOut, u64) {
    let mut m = Model {
        state:   plan.state.clone(),
        logs:    Vec::new(),
        actions: Vec::new(),
        min_energy: 0,
    };
    let max_param = if plan.legacy_limits { 1024usize } else { 65535 };
    let n = plan.ops.len().min(MAX_OPS);
    let mut res = vec![0u64; n];
    let mut rbufs = vec![[0u8; 32]; n];
    let log = |m: &mut Model, ev: Vec<u8>| -> u64 {
        if !plan.legacy_limits || m.logs.len() < MAX_NUM_LOGS {
            m.logs.push(ev);
            1
        } else {
            0
        }
    };
    for i in 0..n {
        let r: u64 = match &plan.ops[i] {
            ZOp::WriteState { len, off } => {
                m.min_energy += 10 + *len as u64;
                if src_for(*len) as u64 + *len as u64 > MEM {
                    return (MOut::Fail, m.min_energy);
                }
                let off = *off as usize;
                if off > m.state.len() {
                    return (MOut::Fail, m.min_energy);
                }
                let end = (off + *len as usize).min(MAX_STATE);
                if m.state.len() < end {
                    m.state.resize(end, 0);
                }
                let src = mem_src(*len);
                let k = end.saturating_sub(off).min(src.len());
                m.state[off..off + k].copy_from_slice(&src[..k]);
                k as u64
            }
            ZOp::LoadState { len, off } => {
                let len = (*len).min(32);
                m.min_energy += 10 + len as u64;
                let off = *off as usize;
                if off > m.state.len() {
                    return (MOut::Fail, m.min_energy);
                }
                let k = (m.state.len() - off).min(len as usize);
                rbufs[i][..k].copy_from_slice(&m.state[off..off + k]);
                k as u64
            }
            ZOp::ResizeState { size } => {
                let old = m.state.len() as u64;
                if *size as u64 > old {
                    m.min_energy += (*size as u64 - old) / 100;
                }
                if *size as usize > MAX_STATE {
                    0
                } else {
                    m.state.resize(*size as usize, 0);
                    1
                }
            }
            ZOp::StateSize => m.state.len() as u64,
            ZOp::LogEvent { len } => {
                if src_for(*len) as u64 + *len as u64 > MEM {
                    return (MOut::Fail, m.min_energy);
                }
                if *len <= MAX_LOG_SIZE {
                    m.min_energy += 500 + 1000 * *len as u64;
                    log(&mut m, mem_src(*len))
                } else {
                    NONE32
                }
            }
            ZOp::LogBurst { count, len } => {
                if src_for(*len) as u64 + *len as u64 > MEM {
                    return (MOut::Fail, m.min_energy);
                }
                let mut sum: u32 = 0;
                for _ in 0..(*count).max(1) {
                    if *len <= MAX_LOG_SIZE {
                        m.min_energy += 500 + 1000 * *len as u64;
                        sum = sum.wrapping_add(log(&mut m, mem_src(*len)) as u32);
                    } else {
                        sum = sum.wrapping_add(u32::MAX);
                    }
                }
                sum as u64
            }
            ZOp::ParamSize => plan.param.len() as u64,
            ZOp::ParamSection { len, off } => {
                let len = (*len).min(32) as usize;
                m.min_energy += 10 + len as u64;
                let off = *off as usize;
                let end = (off + len).min(plan.param.len());
                if off > end {
                    return (MOut::Fail, m.min_energy);
                }
                rbufs[i][..end - off].copy_from_slice(&plan.param[off..end]);
                (end - off) as u64
            }
            ZOp::Accept => {
                m.min_energy += 1000;
                m.actions.push(MAction::Accept);
                m.actions.len() as u64 - 1
            }
            ZOp::SimpleTransfer { amount } => {
                m.min_energy += 1000;
                m.actions.push(MAction::Transfer(*amount));
                m.actions.len() as u64 - 1
            }
            ZOp::Send { param_len, name_ok } => {
                m.min_energy += 73000 + 1000 * *param_len as u64;
                if ZERO_BASE as u64 + *param_len as u64 > MEM || !*name_ok || *param_len as usize > max_param {
                    return (MOut::Fail, m.min_energy);
                }
                m.actions.push(MAction::Send(*param_len));
                m.actions.len() as u64 - 1
            }
            ZOp::CombineAnd { l, r } | ZOp::CombineOr { l, r } => {
                m.min_energy += 1000;
                let cur = m.actions.len() as u32;
                if !(*l < cur && *r < cur) {
                    return (MOut::Fail, m.min_energy);
                }
                m.actions.push(if matches!(plan.ops[i], ZOp::CombineAnd { .. }) { MAction::And(*l, *r) } else { MAction::Or(*l, *r) });
                cur as u64
            }
            ZOp::SelfBalance => 100,
            ZOp::SlotTime => 12345,
            ZOp::Getter { func, len, off } => match func % 4 {
                0 => {
                    rbufs[i].copy_from_slice(&[1u8; 32]);
                    0
                }
                1 => 0, // contract <0,0>: sixteen zero bytes
                2 => {
                    rbufs[i].copy_from_slice(&[2u8; 32]);
                    0
                }
                _ => {
                    let l = (*len).min(32) as usize;
                    m.min_energy += 10 + l as u64;
                    let p = policy_bytes();
                    let off = *off as usize;
                    let end = off.saturating_add(l).min(p.len());
                    if off > end {
                        return (MOut::Fail, m.min_energy);
                    }
                    let c = &p[off..end];
                    rbufs[i][..c.len()].copy_from_slice(c);
                    c.len() as u64
                }
            },
            ZOp::OutOfBounds { func, ptr, len } => {
                let need = match func % 6 {
                    4 => 32,
                    _ => *len as u64,
                };
                if *ptr as u64 + need > MEM {
                    return (MOut::Fail, m.min_energy);
                }
                return (MOut::Reject(i32::MIN), m.min_energy); // not modelled (only reachable in shrunk plans)
            }
        };
        res[i] = r;
    }
    // the two observation logs
    let mut dump = Vec::new();
    for r in &res {
        dump.extend_from_slice(&r.to_le_bytes());
    }
    m.min_energy += 500 + 1000 * dump.len() as u64;
    log(&mut m, dump);
    let mut dump2 = Vec::new();
    for b in &rbufs {
        dump2.extend_from_slice(b);
    }
    m.min_energy += 500 + 1000 * dump2.len() as u64;
    log(&mut m, dump2);
    m.min_energy += 1000;
    m.actions.push(MAction::Accept);
    let ret = plan.ret.unwrap_or(m.actions.len() as i32 - 1);
    if ret < 0 {
        return (MOut::Reject(ret), m.min_energy);
    }
    if ret as usize >= m.actions.len() {
        return (MOut::Fail, m.min_energy);
    }
    m.actions.truncate(ret as usize + 1);
    (
        MOut::Success {
            state:   m.state,
            logs:    m.logs,
            actions: m.actions,
        },
        m.min_energy,
    )
}

// ---------------------------------------------------------------------------
// Generator and executor
// ---------------------------------------------------------------------------

pub fn generate(rng: &mut Rng, _tier: Tier) -> ZPlan {
    let n = rng.urange(1, MAX_OPS);
    let mut state_len: u32 = *rng.pick(&[0u32, 0, 10, 100, 16000, 16384]);
    let state: Vec<u8> = (0..state_len).map(|i| (i % 251) as u8).collect();
    let mut nactions = 0u32;
    let oob = rng.chance(1, 6);
    let mut ops = Vec::new();
    for i in 0..n {
        let op = match rng.below(16) {
            0..=3 => {
                let len = *rng.pick(&[0u32, 1, 10, 64, 100, 1000, 9000, 12000]);
                let off = match rng.below(15) {
                    0 | 1 => 0,
                    2 => state_len + 1,
                    3 | 4 => state_len / 2,
                    5 => (*rng.pick(&[16383u32, 16384, 16385])).min(if rng.chance(1, 4) { u32::MAX } else { state_len }),
                    _ => state_len,
                };
                if off <= state_len {
                    state_len = state_len.max((off + len).min(16384));
                }
                ZOp::WriteState { len, off }
            }
            4 | 5 => ZOp::LoadState {
                len: *rng.pick(&[0u32, 1, 8, 32]),
                off: match rng.below(15) {
                    0 | 1 => 0,
                    2 | 3 => state_len,
                    4 => state_len + 1,
                    _ => rng.range(0, state_len as u64) as u32,
                },
            },
            6 | 7 => {
                let size = *rng.pick(&[0u32, 1, 100, 16383, 16384, 16385, 20000, 1 << 20]);
                if size <= 16384 {
                    state_len = size;
                }
                ZOp::ResizeState { size }
            }
            8 => ZOp::StateSize,
            9 if rng.chance(1, 4) => ZOp::LogBurst {
                count: *rng.pick(&[2u32, 61, 62, 63, 64, 65, 130]),
                len:   *rng.pick(&[0u32, 1, 3, 513]),
            },
            9 => ZOp::LogEvent {
                len: *rng.pick(&[0u32, 1, 64, 511, 512, 513, 4000]),
            },
            10 => {
                if rng.coin() {
                    ZOp::ParamSize
                } else {
                    ZOp::ParamSection {
                        len: *rng.pick(&[0u32, 1, 4, 32]),
                        off: *rng.pick(&[0u32, 0, 0, 0, 1, 1, 1, 2, 2, 1, 40, u32::MAX]),
                    }
                }
            }
            11 => {
                nactions += 1;
                match rng.below(3) {
                    0 => ZOp::Accept,
                    1 => ZOp::SimpleTransfer { amount: rng.below(1000) },
                    _ => ZOp::Send {
                        param_len: *rng.pick(&[0u32, 0, 3, 3, 100, 1024, 1024, 1024, 1025, 9000]),
                        name_ok:   rng.chance(19, 20),
                    },
                }
            }
            12 => {
                let pick = |rng: &mut Rng| if nactions == 0 || rng.chance(1, 20) { nactions + rng.below(3) as u32 } else { rng.below(nactions as u64) as u32 };
                if nactions == 0 && !rng.chance(1, 10) {
                    nactions += 1;
                    ops.push(ZOp::Accept);
                    continue;
                }
                let (l, r) = (pick(rng), pick(rng));
                if l < nactions && r < nactions {
                    nactions += 1;
                }
                if rng.coin() {
                    ZOp::CombineAnd { l, r }
                } else {
                    ZOp::CombineOr { l, r }
                }
            }
            13 => {
                if rng.coin() {
                    ZOp::SelfBalance
                } else {
                    ZOp::Getter {
                        func: rng.below(4) as u8,
                        len:  *rng.pick(&[0u32, 1, 8, 32]),
                        off:  *rng.pick(&[0u32, 0, 1, 39, 40, 41, u32::MAX]),
                    }
                }
            }
            14 => ZOp::SlotTime,
            _ => {
                if oob && i == n / 2 {
                    let len = *rng.pick(&[1u32, 7, 33, 64]);
                    ZOp::OutOfBounds {
                        func: rng.below(6) as u8,
                        ptr:  match rng.below(3) {
                            0 => 65536 - len.min(32) + 1,
                            1 => 65536,
                            _ => u32::MAX,
                        },
                        len,
                    }
                } else {
                    ZOp::StateSize
                }
            }
        };
        ops.push(op);
    }
    ZPlan {
        ops,
        state,
        param: {
            let n = *rng.pick(&[0usize, 1, 2, 40]);
            rng.bytes(n)
        },
        legacy_limits: rng.coin(),
        ret: match rng.below(8) {
            0 => Some(-(rng.range(1, 50) as i32)),
            1 => Some(rng.below(20) as i32),
            _ => None,
        },
        energy: 200_000_000,
        cuts: (0..rng.urange(1, 4)).map(|_| rng.range(0, 999) as u32).collect(),
        shrunk: false,
    }
}

type Art = Artifact<ProcessedImports, CompiledFunction>;

#[derive(Debug, Clone, PartialEq)]
enum ROut {
    Success { state: Vec<u8>, logs: Vec<Vec<u8>>, actions: Vec<MAction>, remaining: u64 },
    Reject(i32, u64),
    OutOfEnergy,
    Fail,
}

fn run_once(plan: &ZPlan, art: &Art, energy: u64) -> ROut {
    concordium_wasm::machine::verif_hooks::reset(0);
    let ctx: ReceiveContext<Vec<u8>> = ReceiveContext {
        metadata:        ChainMetadata {
            slot_time: Timestamp::from_timestamp_millis(12345),
        },
        invoker:         AccountAddress([1u8; 32]),
        self_address:    ContractAddress::new(0, 0),
        self_balance:    Amount::from_micro_ccd(100),
        sender:          Address::Account(AccountAddress([1u8; 32])),
        owner:           AccountAddress([2u8; 32]),
        sender_policies: policy_bytes(),
    };
    let r = v0::invoke_receive(
        art,
        ctx,
        ReceiveInvocation {
            amount:       0,
            receive_name: "c.run",
            parameter:    concordium_contracts_common::Parameter::new_unchecked(&plan.param),
            energy:       InterpreterEnergy { energy },
        },
        &plan.state,
        if plan.legacy_limits { 1024 } else { 65535 },
        plan.legacy_limits,
    );
    match r {
        Err(_) => ROut::Fail,
        Ok(ReceiveResult::OutOfEnergy) => ROut::OutOfEnergy,
        Ok(ReceiveResult::Reject { reason, remaining_energy }) => ROut::Reject(reason, remaining_energy.energy),
        Ok(ReceiveResult::Success {
            state,
            logs,
            actions,
            remaining_energy,
        }) => {
            let st = state.state.clone();
            ROut::Success {
                state:     st,
                logs:      logs.iterate().cloned().collect(),
                actions:   actions
                    .iter()
                    .map(|a| match a {
                        Action::Send { data } => MAction::Send(data.parameter.as_ref().len() as u32),
                        Action::SimpleTransfer { data } => MAction::Transfer(data.amount.micro_ccd),
                        Action::And { l, r } => MAction::And(*l, *r),
                        Action::Or { l, r } => MAction::Or(*l, *r),
                        Action::Accept => MAction::Accept,
                    })
                    .collect(),
                remaining: remaining_energy.energy,
            }
        }
    }
}

fn viol(oracle: &str, sig: &str, detail: String) -> Option<Violation> { Some(Violation::new(oracle, sig, detail, 0)) }

pub fn execute(plan: &ZPlan, rec: &mut Recorder) -> Option<Violation> {
    let bytes = emit_module(plan);
    let inst = utils::instantiate_with_metering::<ProcessedImports>(ValidationConfig::V0, CostConfigurationV0, &ConcordiumAllowedImports, &bytes);
    let art: Art = match inst {
        Ok(i) => i.artifact,
        Err(e) => {
            if plan.shrunk {
                return None;
            }
            return Some(Violation::new("harness", "harness/module-rejected", format!("v0 script module rejected: {:#}", e), 0));
        }
    };
    simcore::alloc::set_dirty_limit(2 * 65536);
    rec.op();
    rec.log_bytes(&bytes);
    let r0 = run_once(plan, &art, plan.energy);
    rec.log_str(&format!("{:?}", std::mem::discriminant(&r0)));
    let (mo, min_energy) = model_run(plan);
    let used = match &r0 {
        ROut::Success { remaining, .. } => Some(plan.energy - remaining),
        ROut::Reject(_, rem) => Some(plan.energy - rem),
        _ => None,
    };
    if let Some(u) = used {
        rec.tick(u);
    }
    match (&mo, &r0) {
        (MOut::Fail, ROut::Fail) => rec.probe("trap_outcome"),
        (MOut::Reject(c), ROut::Reject(rc, _)) if c == rc => rec.probe("reject_outcome"),
        (MOut::Success { state, logs, actions }, ROut::Success {
            state: rs,
            logs: rl,
            actions: ra,
            ..
        }) => {
            if rs.len() > MAX_STATE {
                return viol("limit", "v0/state-exceeds-16k", format!("legacy state has {} bytes (limit 16384)", rs.len()));
            }
            if rs != state {
                let d = rs.iter().zip(state.iter()).position(|(a, b)| a != b).unwrap_or(rs.len().min(state.len()));
                return viol(
                    "visible-result",
                    "v0/final-state",
                    format!("legacy state after the call has {} bytes, the model {}; first difference at offset {}", rs.len(), state.len(), d),
                );
            }
            if rl != logs {
                // the last two logs carry the per-operation results and read buffers
                let what = if rl.len() != logs.len() {
                    format!("{} log events, the model expects {}", rl.len(), logs.len())
                } else {
                    let k = rl.iter().zip(logs.iter()).position(|(a, b)| a != b).unwrap_or(0);
                    if k + 2 == rl.len() {
                        let n = plan.ops.len().min(MAX_OPS);
                        let i = (0..n)
                            .find(|i| rl[k][8 * i..8 * i + 8] != logs[k][8 * i..8 * i + 8])
                            .unwrap_or(0);
                        format!(
                            "operation #{} {:?} returned {:#x}, the model says {:#x}",
                            i,
                            plan.ops[i],
                            u64::from_le_bytes(rl[k][8 * i..8 * i + 8].try_into().unwrap()),
                            u64::from_le_bytes(logs[k][8 * i..8 * i + 8].try_into().unwrap())
                        )
                    } else {
                        format!("log event #{} differs from the model's", k)
                    }
                };
                return viol("visible-result", "v0/results-or-logs", what);
            }
            if ra != actions {
                return viol("visible-result", "v0/actions", format!("action tree {:?} differs from the model's {:?}", ra, actions));
            }
        }
        (_, ROut::OutOfEnergy) => {
            rec.probe("reference_out_of_energy");
            return None;
        }
        (m, r) => {
            return viol(
                "outcome",
                "v0/outcome-class",
                format!("the model expects {}, the engine ended with {}", short(m), short_r(r)),
            )
        }
    }
    if let Some(u) = used {
        if u < min_energy {
            return viol(
                "energy",
                "v0/undercharged",
                format!("the call was charged {} energy, the scheduled charges of its host calls add up to at least {}", u, min_energy),
            );
        }
        // budgets: used / used+17 change only the remainder; anything smaller is out of energy
        for (b, want) in [(u, 0u64), (u + 17, 17)] {
            let r = run_once(plan, &art, b);
            let rem = match &r {
                ROut::Success { remaining, .. } => Some(*remaining),
                ROut::Reject(_, rem) => Some(*rem),
                _ => None,
            };
            if std::mem::discriminant(&r) != std::mem::discriminant(&r0) || rem != Some(want) {
                return viol(
                    "energy",
                    "v0/energy-remainder",
                    format!("the call used {} energy; with budget {} it ends with {} and {:?} left (expected {} left)", u, b, short_r(&r), rem, want),
                );
            }
        }
        for c in &plan.cuts {
            if u == 0 {
                break;
            }
            let b = ((u as u128 * *c as u128 / 1000) as u64).min(u - 1);
            let r = run_once(plan, &art, b);
            rec.fault("energy_cut");
            if r != ROut::OutOfEnergy {
                return viol(
                    "energy",
                    "v0/insufficient-budget-not-out-of-energy",
                    format!("the call needs {} energy; with budget {} it ended with {}", u, b, short_r(&r)),
                );
            }
        }
    }
    // stored artifact
    let mut stored = Vec::new();
    if art.output(&mut stored).is_ok() {
        if let Ok(b) = utils::parse_artifact::<ProcessedImports>(&stored) {
            let owned: Art = b.into();
            let r2 = run_once(plan, &owned, plan.energy);
            if r2 != r0 {
                return viol("artifact", "v0/stored-run-differs", "the stored artifact behaves differently".into());
            }
        }
    }
    None
}

fn short(m: &MOut) -> String {
    match m {
        MOut::Success { state, logs, actions } => format!("success (state {} bytes, {} logs, {} actions)", state.len(), logs.len(), actions.len()),
        MOut::Reject(c) => format!("reject {}", c),
        MOut::Fail => "a runtime failure (trap, illegal argument or invalid action index)".into(),
    }
}

fn short_r(r: &ROut) -> String {
    match r {
        ROut::Success { state, logs, actions, .. } => format!("success (state {} bytes, {} logs, {} actions)", state.len(), logs.len(), actions.len()),
        ROut::Reject(c, _) => format!("reject {}", c),
        ROut::OutOfEnergy => "out of energy".into(),
        ROut::Fail => "a runtime failure".into(),
    }
}

pub fn shrink(plan: &ZPlan) -> Vec<ZPlan> {
    let mut out = Vec::new();
    for ops in simcore::driver::shrink_vec(&plan.ops) {
        let mut p = plan.clone();
        p.ops = ops;
        p.shrunk = true;
        out.push(p);
    }
    if !plan.state.is_empty() {
        let mut p = plan.clone();
        p.state.clear();
        p.shrunk = true;
        out.push(p);
    }
    if plan.cuts.len() > 1 {
        let mut p = plan.clone();
        p.cuts.truncate(1);
        out.push(p);
    }
    out
}
