//! chainsim-V1: script contracts issuing (also hostile) host calls against a
//! stub of the chain scheduler driving `v1::invoke_receive` / `resume_receive`
//! with re-entrancy, rollbacks, scripted responses and energy exhaustion, and a
//! reference model of the contract-visible host interface.
use crate::wasm::{self, Data, Expr, Func, Import, Module, Sig, Stmt, Ty};
use concordium_contracts_common::{
    AccountAddress, Address, Amount, ChainMetadata, ContractAddress, OwnedEntrypointName, ReceiveName, Timestamp,
};
use concordium_smart_contract_engine::{
    v0,
    v1::{
        self,
        trie::{EmptyCollector, Loadable, MutableState, PersistentState},
        ConcordiumAllowedImports, InstanceState, InvokeFailure, InvokeResponse, ProcessedImports, ReceiveContext,
        ReceiveInvocation, ReceiveParams, ReceiveResult,
    },
    InterpreterEnergy,
};
use concordium_wasm::{
    artifact::{Artifact, CompiledFunction},
    output::Output,
    utils,
    validate::ValidationConfig,
    CostConfigurationV1,
};
use serde::{Deserialize, Serialize};
use simcore::{hexser, Recorder, Rng, Tier, Violation};
use std::{collections::BTreeMap, sync::Arc};
use triesim::{disk::SimDisk, model::reference_hash};

// ---------------------------------------------------------------------------
// Plan
// ---------------------------------------------------------------------------

/// A handle argument: result of an earlier operation of the same script, or a constant.
#[derive(Clone, Debug, Serialize, Deserialize, PartialEq)]
pub enum HRef {
    Res(usize),
    Const(u64),
}

#[derive(Clone, Debug, Serialize, Deserialize, PartialEq)]
pub enum Response {
    Success {
        #[serde(with = "hexser::bytes")]
        data:        Vec<u8>,
        has_data:    bool,
        new_balance: u64,
    },
    /// Index into the list of failure kinds (see `failure_kind`).
    Failure(u8),
}

#[derive(Clone, Debug, Serialize, Deserialize, PartialEq)]
pub enum SOp {
    Lookup {
        #[serde(with = "hexser::bytes")]
        key: Vec<u8>,
    },
    Create {
        #[serde(with = "hexser::bytes")]
        key: Vec<u8>,
    },
    Delete {
        #[serde(with = "hexser::bytes")]
        key: Vec<u8>,
    },
    DeletePrefix {
        #[serde(with = "hexser::bytes")]
        key: Vec<u8>,
    },
    Iterate {
        #[serde(with = "hexser::bytes")]
        key: Vec<u8>,
    },
    IterNext { it: HRef },
    IterDelete { it: HRef },
    IterKeySize { it: HRef },
    IterKeyRead { it: HRef, len: u32, off: u32 },
    EntryRead { e: HRef, len: u32, off: u32 },
    EntryWrite {
        e:    HRef,
        #[serde(with = "hexser::bytes")]
        data: Vec<u8>,
        off:  u32,
    },
    EntrySize { e: HRef },
    EntryResize { e: HRef, size: u32 },
    ParamSize { i: u32 },
    ParamSection { i: u32, len: u32, off: u32 },
    LogEvent { len: u32 },
    /// write_output of `len` zero bytes (from an untouched memory region) at offset `off` of the return value.
    WriteOutput { len: u32, off: u32 },
    SelfBalance,
    /// Re-entrant call of entrypoint `reenter<script>` of this very instance.
    InvokeSelf { script: usize },
    /// Call of another (simulated) contract or a transfer / query; the chain answers as scripted.
    InvokeOther {
        tag:   u32,
        resp:  Response,
        /// extra zero bytes appended to the well-formed payload (most operations then must trap)
        #[serde(default)]
        extra: u32,
    },
    /// The environment getters, hash and signature functions (see `ENV_FUNCS`); `len`/`off` are used by
    /// the hash functions (message length), the policy getter (length, offset).
    Env { func: u8, len: u32, off: u32 },
    /// `upgrade(module_ref)`: always interrupts; the chain answers as scripted.
    Upgrade { resp: Response },
    /// `count` lookups of `key` in a loop (each yields a fresh entry handle); the result is the last handle.
    LookupBurst {
        #[serde(with = "hexser::bytes")]
        key:   Vec<u8>,
        count: u32,
    },
    /// get_parameter_section(0, scratch, len, 0) with a length beyond the 64-byte read buffers
    ParamBig { len: u32 },
    /// `count` calls of log_event(len bytes) in a loop; the result is the sum of their return values.
    LogBurst { count: u32, len: u32 },
    /// `memory.grow(pages)`; the module declares room for two more pages, larger requests fail (and
    /// are charged all the same).
    MemGrow { pages: u32 },
    /// A state operation with a pointer/length pair outside linear memory (must trap).
    OutOfBounds { func: u8, ptr: u32, len: u32 },
    /// Recurse `n` frames down, perform a transfer (interrupt) at the bottom, then recurse `m`
    /// frames further: total nesting n+m+2 against the limit of 1024 activation frames.
    DeepCall { n: u32, m: u32, resp: Response },
}

#[derive(Clone, Debug, Serialize, Deserialize)]
pub struct Script {
    pub ops:  Vec<SOp>,
    /// Return code of the entrypoint (0 = success, negative = reject).
    pub code: i32,
}

#[derive(Clone, Copy, Debug, Serialize, Deserialize, PartialEq, Eq)]
pub enum VFocus {
    /// C14: host functions total, memory safe, limits, visible results.
    Host,
    /// C15 (contract visible): locks and handles across interrupts.
    Handles,
    /// C13 (end to end): fresh vs stored artifact, executed twice.
    Resume,
    /// C02 (chain level): remaining energy = budget - charges, out-of-energy iff the budget is below the total.
    Energy,
}

#[derive(Clone, Debug, Serialize, Deserialize)]
pub struct VPlan {
    pub focus:    VFocus,
    #[serde(with = "hexser::pairs")]
    pub initial:  Vec<(Vec<u8>, Vec<u8>)>,
    /// scripts[0] is the entrypoint `c.run`; scripts[k] (k>0) is `c.reenter<k>`.
    pub scripts:  Vec<Script>,
    #[serde(with = "hexser::bytes")]
    pub param:    Vec<u8>,
    /// 4..=7: protocol parameter set.
    pub protocol: u8,
    /// Persist the initial state on the simulated disk and run from the lazily loaded root.
    pub from_disk: bool,
    pub energy:   u64,
    /// Energy cuts (permille of the energy the reference run used).
    pub cuts:     Vec<u32>,
    #[serde(default)]
    pub shrunk:   bool,
    /// Energy focus only: the entrypoint ends with `memory.grow(k)` and writes no result dump, so the
    /// host's charge for the new pages is the very last charge of the transaction.
    #[serde(default)]
    pub tail_grow: Option<u32>,
    /// The transaction is the *initialisation* of an instance: scripts[0] runs as `init_c` through
    /// `v1::invoke_init` on an empty state. Functions that exist only for receive methods trap.
    #[serde(default)]
    pub init: bool,
    /// Declare host function `.0` (index into the import list) with a perturbed type (`.1`: 0 = a
    /// result added, 1 = its result dropped or changed, 2 = a parameter added, 3 = first parameter
    /// of the other width). Such a module must be rejected when it is validated.
    #[serde(default)]
    pub bad_import: Option<(u8, u8)>,
}

// ---------------------------------------------------------------------------
// Frozen protocol numbers of the reference model (its own copy)
// ---------------------------------------------------------------------------

const MEM: u64 = 65536;
const MAX_LOG_SIZE: u32 = 512;
const MAX_NUM_LOGS: usize = 64;
const NONE64: u64 = u64::MAX;
const ERR64: u64 = u64::MAX & !(1u64 << 62);
const NONE32: u64 = u32::MAX as u64;
const STATE_UPDATED_TAG: u64 = 0b1000_0000_0000_0000_0000_0000u64;

pub fn failure_kind(i: u8) -> InvokeFailure {
    match i % 10 {
        0 => InvokeFailure::InsufficientAmount,
        1 => InvokeFailure::NonExistentAccount,
        2 => InvokeFailure::NonExistentContract,
        3 => InvokeFailure::NonExistentEntrypoint,
        4 => InvokeFailure::SendingV0Failed,
        5 => InvokeFailure::RuntimeError,
        6 => InvokeFailure::UpgradeInvalidModuleRef,
        7 => InvokeFailure::SignatureCheckFailed,
        8 => InvokeFailure::ContractReject {
            code: -7,
            data: vec![1, 2, 3],
        },
        _ => InvokeFailure::ContractReject {
            code: i32::MIN,
            data: Vec::new(),
        },
    }
}

// ---------------------------------------------------------------------------
// Memory layout of script contracts
// ---------------------------------------------------------------------------

const DATA_BASE: u32 = 0x1000;
const RB_BASE: u32 = 0x6000; // 64 bytes per operation
const RES_BASE: u32 = 0xC000; // 8 bytes per operation
const MAX_OPS: usize = 96;
const SCRATCH_BASE: u32 = 0x8000; // 8 KiB nobody reads
const ZERO_BASE: u32 = 0xD000; // 12 KiB that no script touches: source of write_output data
const MAX_RETURN_VALUE_P4: usize = 16384;

// host function table: (name, params, result)
const HOSTS: [(&str, &[Ty], Option<Ty>); 34] = [
    ("state_lookup_entry", &[Ty::I32, Ty::I32], Some(Ty::I64)),
    ("state_create_entry", &[Ty::I32, Ty::I32], Some(Ty::I64)),
    ("state_delete_entry", &[Ty::I32, Ty::I32], Some(Ty::I32)),
    ("state_delete_prefix", &[Ty::I32, Ty::I32], Some(Ty::I32)),
    ("state_iterate_prefix", &[Ty::I32, Ty::I32], Some(Ty::I64)),
    ("state_iterator_next", &[Ty::I64], Some(Ty::I64)),
    ("state_iterator_delete", &[Ty::I64], Some(Ty::I32)),
    ("state_iterator_key_size", &[Ty::I64], Some(Ty::I32)),
    ("state_iterator_key_read", &[Ty::I64, Ty::I32, Ty::I32, Ty::I32], Some(Ty::I32)),
    ("state_entry_read", &[Ty::I64, Ty::I32, Ty::I32, Ty::I32], Some(Ty::I32)),
    ("state_entry_write", &[Ty::I64, Ty::I32, Ty::I32, Ty::I32], Some(Ty::I32)),
    ("state_entry_size", &[Ty::I64], Some(Ty::I32)),
    ("state_entry_resize", &[Ty::I64, Ty::I32], Some(Ty::I32)),
    ("get_parameter_size", &[Ty::I32], Some(Ty::I32)),
    ("get_parameter_section", &[Ty::I32, Ty::I32, Ty::I32, Ty::I32], Some(Ty::I32)),
    ("log_event", &[Ty::I32, Ty::I32], Some(Ty::I32)),
    ("get_receive_self_balance", &[], Some(Ty::I64)),
    ("invoke", &[Ty::I32, Ty::I32, Ty::I32], Some(Ty::I64)),
    ("write_output", &[Ty::I32, Ty::I32, Ty::I32], Some(Ty::I32)),
    ("get_slot_time", &[], Some(Ty::I64)),                                              // 19
    ("get_receive_invoker", &[Ty::I32], None),                                          // 20
    ("get_receive_self_address", &[Ty::I32], None),                                     // 21
    ("get_receive_sender", &[Ty::I32], None),                                           // 22
    ("get_receive_owner", &[Ty::I32], None),                                            // 23
    ("get_receive_entrypoint_size", &[], Some(Ty::I32)),                                // 24
    ("get_receive_entrypoint", &[Ty::I32], None),                                       // 25
    ("hash_sha2_256", &[Ty::I32, Ty::I32, Ty::I32], None),                              // 26
    ("hash_sha3_256", &[Ty::I32, Ty::I32, Ty::I32], None),                              // 27
    ("hash_keccak_256", &[Ty::I32, Ty::I32, Ty::I32], None),                            // 28
    ("verify_ed25519_signature", &[Ty::I32, Ty::I32, Ty::I32, Ty::I32], Some(Ty::I32)), // 29
    ("verify_ecdsa_secp256k1_signature", &[Ty::I32, Ty::I32, Ty::I32], Some(Ty::I32)),  // 30
    ("get_policy_section", &[Ty::I32, Ty::I32, Ty::I32], Some(Ty::I32)),                // 31
    ("upgrade", &[Ty::I32], Some(Ty::I64)),                                             // 32
    ("get_init_origin", &[Ty::I32], None),                                              // 33
];

/// Number of `SOp::Env` functions (host indices 19..=31, and 33 = get_init_origin as function 13).
const ENV_FUNCS: u8 = 14;
/// The sender policy bytes every simulated invocation carries.
fn policy_bytes() -> Vec<u8> { (100..140u8).collect() }
/// Where the message of hash / signature calls comes from: the 64 pattern bytes at 0x100, or zeros.
fn msg_src(len: u32) -> u32 {
    if len <= 64 {
        0x100
    } else {
        ZERO_BASE
    }
}
fn msg_bytes(len: u32) -> Vec<u8> {
    if len <= 64 {
        (0..len as u8).collect()
    } else {
        vec![0u8; len as usize]
    }
}

struct DataAlloc {
    next:  u32,
    datas: Vec<Data>,
}

impl DataAlloc {
    fn put(&mut self, b: &[u8]) -> u32 {
        let at = self.next;
        if !b.is_empty() {
            self.datas.push(Data {
                offset: at,
                bytes:  b.to_vec(),
            });
        }
        self.next += b.len() as u32;
        at
    }
}

fn href(h: &HRef) -> Expr {
    match h {
        HRef::Res(j) => Expr::Load(0x29, 0, Box::new(Expr::I32((RES_BASE + 8 * *j as u32) as i32))),
        HRef::Const(c) => Expr::I64(*c as i64),
    }
}

fn i32c(x: u32) -> Expr { Expr::I32(x as i32) }

fn self_call_payload(script: usize) -> Vec<u8> {
    // contract address (index 0, subindex 0), parameter, entrypoint name, amount — little endian
    let mut p = Vec::new();
    p.extend_from_slice(&0u64.to_le_bytes());
    p.extend_from_slice(&0u64.to_le_bytes());
    let param = [script as u8, 0xAA];
    p.extend_from_slice(&(param.len() as u16).to_le_bytes());
    p.extend_from_slice(&param);
    let name = format!("reenter{}", script);
    p.extend_from_slice(&(name.len() as u16).to_le_bytes());
    p.extend_from_slice(name.as_bytes());
    p.extend_from_slice(&0u64.to_le_bytes());
    p
}

fn other_payload(tag: u32, extra: u32) -> Vec<u8> {
    let mut p = other_payload0(tag);
    p.extend(std::iter::repeat(0u8).take(extra as usize));
    p
}

fn other_payload0(tag: u32) -> Vec<u8> {
    match tag {
        0 => {
            // transfer: account + amount
            let mut p = vec![7u8; 32];
            p.extend_from_slice(&5u64.to_le_bytes());
            p
        }
        1 => {
            let mut p = Vec::new();
            p.extend_from_slice(&9u64.to_le_bytes());
            p.extend_from_slice(&0u64.to_le_bytes());
            p.extend_from_slice(&3u16.to_le_bytes());
            p.extend_from_slice(&[1, 2, 3]);
            p.extend_from_slice(&3u16.to_le_bytes());
            p.extend_from_slice(b"foo");
            p.extend_from_slice(&0u64.to_le_bytes());
            p
        }
        2 => vec![7u8; 32], // query account balance
        3 => {
            // query contract balance
            let mut p = Vec::new();
            p.extend_from_slice(&9u64.to_le_bytes());
            p.extend_from_slice(&1u64.to_le_bytes());
            p
        }
        5 => {
            // check account signature: address ‖ opaque payload
            let mut p = vec![7u8; 32];
            p.extend_from_slice(&[0xab; 10]);
            p
        }
        6 => vec![7u8; 32], // query account keys
        7 | 8 => {
            // module reference / contract name of a contract
            let mut p = Vec::new();
            p.extend_from_slice(&9u64.to_le_bytes());
            p.extend_from_slice(&1u64.to_le_bytes());
            p
        }
        _ => Vec::new(), // query exchange rates (4); unknown tags
    }
}

/// Declared maximum of the linear memory: the initial page, the pages of a final `memory.grow`, and
/// two spare pages when a script grows the memory in its middle.
fn max_pages(plan: &VPlan) -> u32 {
    let mid = plan.scripts.iter().any(|s| s.ops.iter().any(|o| matches!(o, SOp::MemGrow { .. })));
    1 + plan.tail_grow.unwrap_or(0) + if mid { 2 } else { 0 }
}

/// Emit the module for a plan: one exported function per script.
pub fn emit_module(plan: &VPlan) -> Vec<u8> {
    let imports: Vec<Import> = HOSTS
        .iter()
        .map(|(n, p, r)| Import {
            module: "concordium".into(),
            name:   (*n).into(),
            sig:    Sig {
                params: p.to_vec(),
                result: *r,
            },
        })
        .collect();
    let mut imports = imports;
    if let Some((idx, kind)) = plan.bad_import {
        let im = &mut imports[idx as usize % HOSTS.len()];
        match kind % 4 {
            0 => {
                im.sig.result = Some(match im.sig.result {
                    None => Ty::I32,
                    Some(Ty::I32) => Ty::I64,
                    Some(Ty::I64) => Ty::I32,
                })
            }
            1 => {
                im.sig.result = match im.sig.result {
                    None => Some(Ty::I64),
                    Some(_) => None,
                }
            }
            2 => im.sig.params.push(Ty::I32),
            _ => {
                if im.sig.params.is_empty() {
                    im.sig.params.push(Ty::I64)
                } else {
                    im.sig.params[0] = if im.sig.params[0] == Ty::I32 { Ty::I64 } else { Ty::I32 };
                }
            }
        }
    }
    let mut da = DataAlloc {
        next:  DATA_BASE,
        datas: Vec::new(),
    };
    let mut funcs = Vec::new();
    let mut exports = Vec::new();
    for (si, script) in plan.scripts.iter().enumerate() {
        let mut body: Vec<Stmt> = Vec::new();
        for (i, op) in script.ops.iter().enumerate().take(MAX_OPS) {
            let rb = RB_BASE + 64 * i as u32;
            let res_addr = i32c(RES_BASE + 8 * i as u32);
            if let SOp::DeepCall { n, m, .. } = op {
                let down = plan.scripts.len() as u32 + 1;
                body.push(Stmt::Store(
                    0x37,
                    0,
                    res_addr,
                    Expr::Un(0xad, Box::new(Expr::Call(down, vec![i32c(*n), i32c(*m)]))),
                ));
                continue;
            }
            if let SOp::LookupBurst { key, count } = op {
                // local 2 = loop counter; the handle of the last lookup is stored
                let kp = da.put(key);
                body.push(Stmt::Loop(2, (*count).max(1), vec![Stmt::Store(
                    0x37,
                    0,
                    i32c(RES_BASE + 8 * i as u32),
                    Expr::Host(0, vec![i32c(kp), i32c(key.len() as u32)]),
                )]));
                continue;
            }
            if let SOp::ParamBig { len } = op {
                body.push(Stmt::Store(
                    0x37,
                    0,
                    res_addr,
                    Expr::Un(0xad, Box::new(Expr::Host(14, vec![i32c(0), i32c(SCRATCH_BASE), i32c((*len).min(8192)), i32c(0)]))),
                ));
                continue;
            }
            if let SOp::LogBurst { count, len } = op {
                // local 2 = loop counter, local 3 = sum of the results
                body.push(Stmt::LocalSet(3, Expr::I32(0)));
                body.push(Stmt::Loop(2, (*count).max(1), vec![Stmt::LocalSet(
                    3,
                    Expr::Bin(0x6a, Box::new(Expr::LocalGet(3)), Box::new(Expr::Host(15, vec![i32c(DATA_BASE), i32c(*len)]))),
                )]));
                body.push(Stmt::Store(0x37, 0, res_addr, Expr::Un(0xad, Box::new(Expr::LocalGet(3)))));
                continue;
            }
            if let SOp::MemGrow { pages } = op {
                body.push(Stmt::Store(0x37, 0, res_addr, Expr::Un(0xad, Box::new(Expr::MemoryGrow(Box::new(i32c(*pages)))))));
                continue;
            }
            // (host index, args)
            let (h, args): (u32, Vec<Expr>) = match op {
                SOp::Lookup { key } => (0, vec![i32c(da.put(key)), i32c(key.len() as u32)]),
                SOp::Create { key } => (1, vec![i32c(da.put(key)), i32c(key.len() as u32)]),
                SOp::Delete { key } => (2, vec![i32c(da.put(key)), i32c(key.len() as u32)]),
                SOp::DeletePrefix { key } => (3, vec![i32c(da.put(key)), i32c(key.len() as u32)]),
                SOp::Iterate { key } => (4, vec![i32c(da.put(key)), i32c(key.len() as u32)]),
                SOp::IterNext { it } => (5, vec![href(it)]),
                SOp::IterDelete { it } => (6, vec![href(it)]),
                SOp::IterKeySize { it } => (7, vec![href(it)]),
                SOp::IterKeyRead { it, len, off } => (8, vec![href(it), i32c(rb), i32c((*len).min(64)), i32c(*off)]),
                SOp::EntryRead { e, len, off } => (9, vec![href(e), i32c(rb), i32c((*len).min(64)), i32c(*off)]),
                SOp::EntryWrite { e, data, off } => (10, vec![href(e), i32c(da.put(data)), i32c(data.len() as u32), i32c(*off)]),
                SOp::EntrySize { e } => (11, vec![href(e)]),
                SOp::EntryResize { e, size } => (12, vec![href(e), i32c(*size)]),
                SOp::ParamSize { i } => (13, vec![i32c(*i)]),
                SOp::ParamSection { i, len, off } => (14, vec![i32c(*i), i32c(rb), i32c((*len).min(64)), i32c(*off)]),
                SOp::LogEvent { len } => (15, vec![i32c(DATA_BASE), i32c(*len)]),
                SOp::WriteOutput { len, off } => (18, vec![i32c(ZERO_BASE), i32c(*len), i32c(*off)]),
                SOp::SelfBalance => (16, vec![]),
                SOp::InvokeSelf { script } => {
                    let p = self_call_payload(*script);
                    (17, vec![i32c(1), i32c(da.put(&p)), i32c(p.len() as u32)])
                }
                SOp::InvokeOther { tag, extra, .. } => {
                    let p = other_payload(*tag, *extra);
                    (17, vec![i32c(*tag), i32c(da.put(&p)), i32c(p.len() as u32)])
                }
                SOp::Upgrade { .. } => (32, vec![i32c(0x100)]),
                SOp::Env { func, len, off } => match func % ENV_FUNCS {
                    0 => (19, vec![]),
                    1 => (20, vec![i32c(rb)]),
                    2 => (21, vec![i32c(rb)]),
                    3 => (22, vec![i32c(rb)]),
                    4 => (23, vec![i32c(rb)]),
                    5 => (24, vec![]),
                    6 => (25, vec![i32c(rb)]),
                    7 => (26, vec![i32c(msg_src(*len)), i32c(*len), i32c(rb)]),
                    8 => (27, vec![i32c(msg_src(*len)), i32c(*len), i32c(rb)]),
                    9 => (28, vec![i32c(msg_src(*len)), i32c(*len), i32c(rb)]),
                    10 => (29, vec![i32c(0x100), i32c(0x100), i32c(msg_src(*len)), i32c(*len)]),
                    11 => (30, vec![i32c(0x100), i32c(0x100), i32c(0x100)]),
                    12 => (31, vec![i32c(rb), i32c((*len).min(64)), i32c(*off)]),
                    _ => (33, vec![i32c(rb)]),
                },
                SOp::DeepCall { .. } | SOp::MemGrow { .. } | SOp::LogBurst { .. } | SOp::LookupBurst { .. } | SOp::ParamBig { .. } => unreachable!(),
                SOp::OutOfBounds { func, ptr, len } => match func % 10 {
                    0 => (0, vec![i32c(*ptr), i32c(*len)]),
                    1 => (1, vec![i32c(*ptr), i32c(*len)]),
                    2 => (2, vec![i32c(*ptr), i32c(*len)]),
                    3 => (4, vec![i32c(*ptr), i32c(*len)]),
                    4 => (15, vec![i32c(*ptr), i32c(*len)]),
                    5 => (18, vec![i32c(*ptr), i32c(*len), i32c(0)]),
                    6 => (26, vec![i32c(*ptr), i32c(*len), i32c(rb)]),
                    7 => (31, vec![i32c(*ptr), i32c(*len), i32c(0)]),
                    8 => (20, vec![i32c(*ptr)]),
                    _ => (28, vec![i32c(0x100), i32c(8), i32c(*ptr)]),
                },
            };
            if HOSTS[h as usize].2.is_none() {
                // no result: the slot stays 0
                body.push(Stmt::Host(h, args));
                continue;
            }
            let call = Expr::Host(h, args);
            let wide = HOSTS[h as usize].2 == Some(Ty::I64);
            body.push(if wide {
                Stmt::Store(0x37, 0, res_addr, call)
            } else {
                Stmt::Store(0x37, 0, res_addr, Expr::Un(0xad, Box::new(call)))
            });
            if let SOp::WriteOutput { off, .. } = op {
                // local 1 tracks the length of the return value: L = max(L, off + written)
                let tmp = || Expr::Bin(
                    0x6a,
                    Box::new(i32c(*off)),
                    Box::new(Expr::Un(0xa7, Box::new(Expr::Load(0x29, 0, Box::new(i32c(RES_BASE + 8 * i as u32)))))),
                );
                body.push(Stmt::LocalSet(
                    1,
                    Expr::Select(Box::new(tmp()), Box::new(Expr::LocalGet(1)), Box::new(Expr::Bin(0x4b, Box::new(tmp()), Box::new(Expr::LocalGet(1))))),
                ));
            }
        }
        let n = script.ops.len().min(MAX_OPS) as u32;
        if let (0, Some(k)) = (si, plan.tail_grow) {
            body.push(Stmt::Drop(Expr::MemoryGrow(Box::new(i32c(k)))));
        } else {
            // return value = (what the script wrote itself) ‖ results ‖ read buffers
            body.push(Stmt::Drop(Expr::Host(18, vec![i32c(RES_BASE), i32c(8 * n), Expr::LocalGet(1)])));
            body.push(Stmt::Drop(Expr::Host(18, vec![
                i32c(RB_BASE),
                i32c(64 * n),
                Expr::Bin(0x6a, Box::new(Expr::LocalGet(1)), Box::new(i32c(8 * n))),
            ])));
        }
        funcs.push(Func {
            sig:    Sig {
                params: vec![Ty::I64],
                result: Some(Ty::I32),
            },
            locals: vec![Ty::I32, Ty::I32, Ty::I32],
            body,
            ret:    Some(Expr::I32(script.code)),
        });
        exports.push((if si == 0 { "c.run".to_string() } else { format!("c.reenter{}", si) }, si as u32));
    }
    // init function
    funcs.push(Func {
        sig:    Sig {
            params: vec![Ty::I64],
            result: Some(Ty::I32),
        },
        locals: Vec::new(),
        body:   Vec::new(),
        ret:    Some(Expr::I32(0)),
    });
    exports.push((if plan.init { "init_d".to_string() } else { "init_c".to_string() }, plan.scripts.len() as u32));
    if plan.init {
        exports.push(("init_c".to_string(), 0));
    }
    // helpers for DeepCall: $down(n, m) and $down2(m)
    let down = plan.scripts.len() as u32 + 1;
    let down2 = down + 1;
    funcs.push(Func {
        sig:    Sig {
            params: vec![Ty::I32, Ty::I32],
            result: Some(Ty::I32),
        },
        locals: Vec::new(),
        body:   Vec::new(),
        ret:    Some(Expr::If(
            Ty::I32,
            Box::new(Expr::LocalGet(0)),
            Vec::new(),
            Box::new(Expr::Call(down, vec![Expr::Bin(0x6b, Box::new(Expr::LocalGet(0)), Box::new(Expr::I32(1))), Expr::LocalGet(1)])),
            vec![Stmt::Drop(Expr::Host(17, vec![i32c(0), i32c(0x200), i32c(40)]))],
            Box::new(Expr::Call(down2, vec![Expr::LocalGet(1)])),
        )),
    });
    funcs.push(Func {
        sig:    Sig {
            params: vec![Ty::I32],
            result: Some(Ty::I32),
        },
        locals: Vec::new(),
        body:   Vec::new(),
        ret:    Some(Expr::If(
            Ty::I32,
            Box::new(Expr::LocalGet(0)),
            Vec::new(),
            Box::new(Expr::Call(down2, vec![Expr::Bin(0x6b, Box::new(Expr::LocalGet(0)), Box::new(Expr::I32(1)))])),
            Vec::new(),
            Box::new(Expr::I32(7)),
        )),
    });
    // filler at DATA_BASE for log events
    let mut datas = vec![
        Data {
            offset: 0x100,
            bytes:  (0..64u8).collect(),
        },
        // transfer payload used by DeepCall: account address ‖ amount
        Data {
            offset: 0x200,
            bytes:  {
                let mut p = vec![7u8; 32];
                p.extend_from_slice(&5u64.to_le_bytes());
                p
            },
        },
    ];
    datas.extend(da.datas);
    let m = Module {
        sigs: Vec::new(),
        imports,
        funcs,
        exports,
        memory: Some((1, Some(max_pages(plan)))),
        globals: Vec::new(),
        table: Vec::new(),
        data: datas,
        epilogue_addr: None,
    };
    wasm::emit(&m)
}

// ---------------------------------------------------------------------------
// Reference model of the contract-visible host interface
// ---------------------------------------------------------------------------

#[derive(Clone, Default)]
struct MIter {
    prefix:  Vec<u8>,
    keys:    Vec<Vec<u8>>,
    pos:     usize,
    started: bool,
    /// `next` has reported the end: what key_size / key_read deliver from now on is not specified
    exhausted: bool,
}

#[derive(Clone, Default)]
struct MState {
    map:     BTreeMap<Vec<u8>, (Vec<u8>, u64)>,
    locks:   Vec<Vec<u8>>,
    gen:     u32,
    entries: Vec<(Vec<u8>, u64)>,
    iters:   Vec<Option<MIter>>,
    changed: bool,
    uid:     u64,
    /// entries whose value was created or written in this activation (no copy charge on write)
    owned:   std::collections::BTreeSet<u64>,
}

#[derive(Debug, Clone, PartialEq)]
enum MOutcome {
    /// (return code, return value)
    Done(i32, Vec<u8>),
    Trap,
}

struct MCtx<'a> {
    plan:    &'a VPlan,
    params:  Vec<Vec<u8>>,
    balance: u64,
    logs:    usize,
    depth:   u32,
    limit_logs: bool,
    max_param: usize,
    queries: bool,
    sig_checks: bool,
    inspection: bool,
    /// current size of the linear memory of the running activation, in pages
    pages: u32,
    /// the outermost activation is an init method
    init: bool,
    /// An operation used, as a handle, a result the interface does not specify (key size / key bytes
    /// of an exhausted iterator): what happens next is not modelled, no verdict for this run.
    unmodelled: bool,
    /// Events of the outermost activation, as the chain receives them: one section per
    /// state-affecting interrupt (transfer, call, upgrade) plus the final one; queries do not
    /// end a section. Each event is represented by its length.
    sections: Vec<Vec<u32>>,
    /// the simulated memory image of the data region (for log events and writes)
    mem:     Vec<u8>,
    /// Sum of the scheduled charges of the host calls reached so far (frozen copy of the
    /// cost functions; interpreter instructions and tree traversal are not included, so this
    /// is a lower bound of what the engine must have charged).
    min_energy: u64,
    /// return value of the current activation and whether its size is limited (P4)
    rv:      Vec<u8>,
    limit_rv: bool,
    /// where the result dump of the last finished activation starts in its return value
    dump_at: usize,
}

/// write_output as documented: returns None for a trap, otherwise the number of bytes written.
fn model_write_output(ctx: &mut MCtx, start: u64, bytes: &[u8], off: u32) -> Option<u64> {
    let len = bytes.len();
    ctx.min_energy += 10 + len as u64;
    if start + len as u64 > MEM * ctx.pages as u64 {
        return None;
    }
    let off = off as usize;
    if off > ctx.rv.len() {
        return None;
    }
    let mut end = off + len;
    if ctx.limit_rv {
        end = end.min(MAX_RETURN_VALUE_P4);
    }
    if ctx.rv.len() < end {
        ctx.min_energy += 30 * (end - ctx.rv.len()) as u64;
        ctx.rv.resize(end, 0);
    }
    let n = (end - off).min(len);
    ctx.rv[off..off + n].copy_from_slice(&bytes[..n]);
    Some(n as u64)
}

// frozen copy of the scheduled host-call charges
fn c_copy_from_host(x: u64) -> u64 { 10 + x }
fn c_lookup(k: u64) -> u64 { 80 + 4 * c_copy_from_host(k) + 16 * k }
fn c_create(k: u64) -> u64 { 48 + 8 * c_copy_from_host(k) + 100 * k } // keys <= 64 bytes here
fn c_delete(k: u64) -> u64 { 80 + 4 * c_copy_from_host(k) + 16 * k }
fn c_copy_parameter(l: u64) -> u64 { if l <= 1024 { 10 + l } else { 10 + 1000 * l } }
fn c_additional_entry(x: u64) -> u64 { 100 * x }

impl MState {
    fn entry_alive(&self, h: u64) -> Option<(Vec<u8>, bool)> {
        let gen = (h >> 32) as u32;
        let idx = (h & 0xffff_ffff) as usize;
        if gen != self.gen {
            return None;
        }
        let (k, uid) = self.entries.get(idx)?;
        let alive = matches!(self.map.get(k), Some((_, u)) if u == uid);
        Some((k.clone(), alive))
    }

    fn locked_key(&self, key: &[u8]) -> bool { self.locks.iter().any(|l| key.starts_with(l)) }

    fn locked_prefix(&self, key: &[u8]) -> bool { self.locks.iter().any(|l| key.starts_with(l) || l.starts_with(key)) }
}

fn copy_section(src: &[u8], len: u32, off: u32) -> Vec<u8> {
    let off = (off as usize).min(src.len());
    let n = (src.len() - off).min(len as usize);
    src[off..off + n].to_vec()
}


fn model_response(resp: &Response, ctx: &mut MCtx) -> u64 {
    match resp {
        Response::Success { data, has_data, new_balance } => {
            ctx.balance = *new_balance;
            if *has_data {
                let len = ctx.params.len() as u64;
                ctx.params.push(data.clone());
                len << 40
            } else {
                0
            }
        }
        Response::Failure(k) => match failure_kind(*k) {
            InvokeFailure::ContractReject { code, data } => {
                let len = ctx.params.len() as u64;
                ctx.params.push(data);
                (len << 40) | (code as u32 as u64)
            }
            InvokeFailure::InsufficientAmount => 0x01_0000_0000,
            InvokeFailure::NonExistentAccount => 0x02_0000_0000,
            InvokeFailure::NonExistentContract => 0x03_0000_0000,
            InvokeFailure::NonExistentEntrypoint => 0x04_0000_0000,
            InvokeFailure::SendingV0Failed => 0x05_0000_0000,
            InvokeFailure::RuntimeError => 0x06_0000_0000,
            InvokeFailure::UpgradeInvalidModuleRef => 0x07_0000_0000,
            InvokeFailure::UpgradeInvalidContractName => 0x08_0000_0000,
            InvokeFailure::UpgradeInvalidVersion => 0x09_0000_0000,
            InvokeFailure::SignatureDataMalformed => 0x0a_0000_0000,
            InvokeFailure::SignatureCheckFailed => 0x0b_0000_0000,
        },
    }
}

/// Run script `si` of the plan against the model. Returns the outcome and
/// whether the (model) state ends up committed is the caller's business.
fn model_run(plan: &VPlan, si: usize, st: &mut MState, ctx: &mut MCtx) -> MOutcome {
    let script = &plan.scripts[si];
    let n = script.ops.len().min(MAX_OPS);
    let mut res: Vec<u64> = vec![0; n];
    let mut rbufs: Vec<[u8; 64]> = vec![[0u8; 64]; n];
    let val = |h: &HRef, res: &[u64]| -> u64 {
        match h {
            HRef::Res(j) => res.get(*j).copied().unwrap_or(0),
            HRef::Const(c) => *c,
        }
    };
    let mut poisoned = vec![false; n];
    for i in 0..n {
        let op = &script.ops[i];
        {
            let refs: Vec<&HRef> = match op {
                SOp::IterNext { it } | SOp::IterDelete { it } | SOp::IterKeySize { it } | SOp::IterKeyRead { it, .. } => vec![it],
                SOp::EntryRead { e, .. } | SOp::EntryWrite { e, .. } | SOp::EntrySize { e } | SOp::EntryResize { e, .. } => vec![e],
                _ => Vec::new(),
            };
            for h in refs {
                if let HRef::Res(j) = h {
                    if poisoned.get(*j).copied().unwrap_or(false) {
                        ctx.unmodelled = true;
                    }
                }
            }
        }
        if ctx.init {
            // functions that exist only for receive methods are a runtime error in an init method
            let receive_only = match op {
                SOp::SelfBalance | SOp::InvokeSelf { .. } | SOp::InvokeOther { .. } | SOp::Upgrade { .. } | SOp::DeepCall { .. } => true,
                SOp::Env { func, .. } => (1..=6).contains(&(func % ENV_FUNCS)),
                SOp::OutOfBounds { func, .. } => func % 10 == 8,
                _ => false,
            };
            if receive_only {
                return MOutcome::Trap;
            }
        }
        let r: u64 = match op {
            SOp::Lookup { key } => {
                ctx.min_energy += c_lookup(key.len() as u64);
                match st.map.get(key) {
                Some((_, uid)) => {
                    st.entries.push((key.clone(), *uid));
                    ((st.gen as u64) << 32) | (st.entries.len() as u64 - 1)
                }
                None => NONE64,
            }}
            SOp::Create { key } => {
                ctx.min_energy += c_create(key.len() as u64);
                st.changed = true;
                if st.locked_key(key) {
                    NONE64
                } else {
                    let uid = match st.map.get(key) {
                        Some((_, u)) => *u,
                        None => {
                            st.uid += 1;
                            st.uid
                        }
                    };
                    st.map.insert(key.clone(), (Vec::new(), uid));
                    st.owned.insert(uid);
                    st.entries.push((key.clone(), uid));
                    ((st.gen as u64) << 32) | (st.entries.len() as u64 - 1)
                }
            }
            SOp::Delete { key } => {
                ctx.min_energy += c_delete(key.len() as u64);
                st.changed = true;
                if st.map.is_empty() {
                    1
                } else if st.locked_key(key) {
                    0
                } else if st.map.remove(key).is_some() {
                    2
                } else {
                    1
                }
            }
            SOp::DeletePrefix { key } => {
                ctx.min_energy += 10 * key.len() as u64;
                st.changed = true;
                if st.map.is_empty() {
                    1
                } else if st.locked_prefix(key) {
                    0
                } else {
                    let ks: Vec<Vec<u8>> = st.map.keys().filter(|k| k.starts_with(key)).cloned().collect();
                    for k in &ks {
                        st.map.remove(k);
                    }
                    if ks.is_empty() {
                        1
                    } else {
                        2
                    }
                }
            }
            SOp::Iterate { key } => {
                ctx.min_energy += 80 + 100 * key.len() as u64;
                let ks: Vec<Vec<u8>> = st.map.keys().filter(|k| k.starts_with(key)).cloned().collect();
                if ks.is_empty() {
                    NONE64
                } else {
                    st.locks.push(key.clone());
                    st.iters.push(Some(MIter {
                        prefix:  key.clone(),
                        keys:    ks,
                        pos:     0,
                        started: false,
                        exhausted: false,
                    }));
                    ((st.gen as u64) << 32) | (st.iters.len() as u64 - 1)
                }
            }
            SOp::IterNext { it } => {
                ctx.min_energy += 32;
                let h = val(it, &res);
                let (gen, idx) = ((h >> 32) as u32, (h & 0xffff_ffff) as usize);
                if gen != st.gen {
                    ERR64
                } else {
                    let gen = st.gen;
                    match st.iters.get_mut(idx).and_then(|x| x.as_mut()) {
                        None => ERR64,
                        Some(im) => {
                            im.started = true;
                            if im.pos < im.keys.len() {
                                let k = im.keys[im.pos].clone();
                                im.pos += 1;
                                let uid = st.map.get(&k).map(|x| x.1).unwrap_or(0);
                                st.entries.push((k, uid));
                                ((gen as u64) << 32) | (st.entries.len() as u64 - 1)
                            } else {
                                im.exhausted = true;
                                NONE64
                            }
                        }
                    }
                }
            }
            SOp::IterDelete { it } => {
                ctx.min_energy += 10;
                let h = val(it, &res);
                let (gen, idx) = ((h >> 32) as u32, (h & 0xffff_ffff) as usize);
                if gen != st.gen {
                    NONE32
                } else {
                    match st.iters.get_mut(idx) {
                        None => NONE32,
                        Some(slot) => match slot.take() {
                            None => 0,
                            Some(im) => {
                                if let Some(p) = st.locks.iter().position(|l| *l == im.prefix) {
                                    st.locks.remove(p);
                                }
                                1
                            }
                        },
                    }
                }
            }
            SOp::IterKeySize { it } => {
                ctx.min_energy += 10;
                let h = val(it, &res);
                let (gen, idx) = ((h >> 32) as u32, (h & 0xffff_ffff) as usize);
                if gen != st.gen {
                    NONE32
                } else {
                    match st.iters.get(idx).and_then(|x| x.as_ref()) {
                        None => NONE32,
                        Some(im) => {
                            if im.exhausted {
                                poisoned[i] = true;
                            }
                            if im.started && im.pos > 0 {
                                im.keys[im.pos - 1].len() as u64
                            } else {
                                im.prefix.len() as u64
                            }
                        }
                    }
                }
            }
            SOp::IterKeyRead { it, len, off } => {
                ctx.min_energy += c_copy_from_host((*len).min(64) as u64);
                let h = val(it, &res);
                let (gen, idx) = ((h >> 32) as u32, (h & 0xffff_ffff) as usize);
                if gen != st.gen {
                    NONE32
                } else {
                    match st.iters.get(idx).and_then(|x| x.as_ref()) {
                        None => NONE32,
                        Some(im) => {
                            if im.exhausted {
                                poisoned[i] = true;
                            }
                            let key = if im.started && im.pos > 0 { &im.keys[im.pos - 1] } else { &im.prefix };
                            let c = copy_section(key, (*len).min(64), *off);
                            rbufs[i][..c.len()].copy_from_slice(&c);
                            c.len() as u64
                        }
                    }
                }
            }
            SOp::EntryRead { e, len, off } => {
                ctx.min_energy += 32 + ((*len).min(64) / 8) as u64;
                match st.entry_alive(val(e, &res)) {
                Some((k, true)) => {
                    let c = copy_section(&st.map[&k].0, (*len).min(64), *off);
                    rbufs[i][..c.len()].copy_from_slice(&c);
                    c.len() as u64
                }
                _ => NONE32,
            }}
            SOp::EntryWrite { e, data, off } => {
                ctx.min_energy += 32 + (data.len() as u64 / 8);
                st.changed = true;
                match st.entry_alive(val(e, &res)) {
                    Some((k, true)) => {
                        let uid = st.map[&k].1;
                        let v = &mut st.map.get_mut(&k).unwrap().0;
                        if st.owned.insert(uid) {
                            // first write in this activation: the existing value is copied
                            ctx.min_energy += c_additional_entry(v.len() as u64);
                        }
                        let off = *off as usize;
                        if off <= v.len() {
                            let end = off + data.len();
                            if v.len() < end {
                                ctx.min_energy += c_additional_entry((end - v.len()) as u64);
                                v.resize(end, 0);
                            }
                            v[off..end].copy_from_slice(data);
                            data.len() as u64
                        } else {
                            0
                        }
                    }
                    _ => NONE32,
                }
            }
            SOp::EntrySize { e } => {
                ctx.min_energy += 32;
                match st.entry_alive(val(e, &res)) {
                    Some((k, true)) => st.map[&k].0.len() as u64,
                    _ => NONE32,
                }
            }
            SOp::EntryResize { e, size } => {
                ctx.min_energy += 10;
                st.changed = true;
                let h = val(e, &res);
                let (gen, idx) = ((h >> 32) as u32, (h & 0xffff_ffff) as usize);
                if gen != st.gen || idx >= st.entries.len() {
                    NONE32
                } else if *size as u64 > (1u64 << 30) {
                    0
                } else {
                    match st.entry_alive(h) {
                        Some((k, true)) => {
                            let uid = st.map[&k].1;
                            let existing = st.map[&k].0.len() as u64;
                            if st.owned.insert(uid) {
                                ctx.min_energy += c_additional_entry(existing.min(*size as u64));
                            }
                            if *size as u64 > existing {
                                ctx.min_energy += c_additional_entry(*size as u64 - existing);
                            }
                            st.map.get_mut(&k).unwrap().0.resize(*size as usize, 0);
                            1
                        }
                        _ => NONE32,
                    }
                }
            }
            SOp::ParamSize { i } => match ctx.params.get(*i as usize) {
                Some(p) => p.len() as u64,
                None => NONE32,
            },
            SOp::ParamSection { i: pi, len, off } => {
                ctx.min_energy += c_copy_parameter((*len).min(64) as u64);
                match ctx.params.get(*pi as usize) {
                Some(p) => {
                    let len = (*len).min(64) as usize;
                    let off = *off as usize;
                    let end = (off + len).min(p.len());
                    if off > end {
                        return MOutcome::Trap;
                    }
                    let c = &p[off..end];
                    rbufs[i][..c.len()].copy_from_slice(c);
                    c.len() as u64
                }
                None => NONE32,
            }}
            SOp::LogEvent { len } => {
                if DATA_BASE as u64 + *len as u64 > MEM * ctx.pages as u64 {
                    return MOutcome::Trap;
                }
                if *len <= MAX_LOG_SIZE {
                    ctx.min_energy += 500 + 1000 * *len as u64;
                    if !ctx.limit_logs || ctx.logs < MAX_NUM_LOGS {
                        ctx.logs += 1;
                        if ctx.depth == 0 {
                            ctx.sections.last_mut().unwrap().push(*len);
                        }
                        1
                    } else {
                        0
                    }
                } else {
                    NONE32 // -1 as i32, zero-extended when stored
                }
            }
            SOp::WriteOutput { len, off } => {
                let zeros = vec![0u8; *len as usize];
                match model_write_output(ctx, ZERO_BASE as u64, &zeros, *off) {
                    Some(n) => n,
                    None => return MOutcome::Trap,
                }
            }
            SOp::SelfBalance => ctx.balance,
            SOp::InvokeSelf { script: target } => {
                ctx.min_energy += 500 + c_copy_parameter(2);
                if ctx.depth == 0 {
                    ctx.sections.push(Vec::new());
                }
                if *target == 0 || *target >= plan.scripts.len() || ctx.depth >= 3 {
                    // the chain stub answers "entrypoint does not exist" for these; the events so far
                    // were handed over with the interrupt all the same
                    ctx.logs = 0;
                    0x04_0000_0000
                } else {
                    // the callee runs on a fresh generation of the same instance
                    let mut inner = MState {
                        map: st.map.clone(),
                        locks: Vec::new(),
                        gen: 0,
                        entries: Vec::new(),
                        iters: Vec::new(),
                        changed: false,
                        uid: st.uid,
                        owned: Default::default(),
                    };
                    let saved_params = std::mem::replace(&mut ctx.params, vec![vec![*target as u8, 0xAA]]);
                    let saved_logs = ctx.logs;
                    let saved_balance = ctx.balance;
                    let saved_rv = std::mem::take(&mut ctx.rv);
                    ctx.logs = 0;
                    ctx.depth += 1;
                    let saved_pages = std::mem::replace(&mut ctx.pages, 1);
                    let o = model_run(plan, *target, &mut inner, ctx);
                    ctx.pages = saved_pages;
                    ctx.depth -= 1;
                    let _ = saved_logs;
                    // the caller's events were handed over at the interrupt: its count restarts
                    ctx.logs = 0;
                    ctx.params = saved_params;
                    ctx.rv = saved_rv;
                    match o {
                        MOutcome::Trap => {
                            ctx.balance = saved_balance;
                            0x06_0000_0000
                        }
                        MOutcome::Done(code, rv) if code < 0 => {
                            ctx.balance = saved_balance;
                            let len = ctx.params.len() as u64;
                            ctx.params.push(rv);
                            (len << 40) | (code as u32 as u64)
                        }
                        MOutcome::Done(_, rv) => {
                            let updated = inner.changed;
                            if updated {
                                // commit: the caller continues on the callee's generation
                                st.map = inner.map;
                                st.uid = inner.uid;
                                st.locks = inner.locks;
                                st.owned = inner.owned;
                                st.gen += 1;
                                st.entries.clear();
                                st.iters.clear();
                                st.changed = true;
                            }
                            // logs of the caller's segment were handed over at the interrupt
                            ctx.logs = 0;
                            let len = ctx.params.len() as u64;
                            ctx.params.push(rv);
                            (len | if updated { STATE_UPDATED_TAG } else { 0 }) << 40
                        }
                    }
                }
            }
            SOp::InvokeOther { tag, resp, extra } => {
                ctx.min_energy += 500;
                // which operations exist in which protocol version
                let available = match *tag {
                    0 | 1 => true,
                    2..=4 => ctx.queries,
                    5 | 6 => ctx.sig_checks,
                    7 | 8 => ctx.inspection,
                    _ => false,
                };
                if !available {
                    return MOutcome::Trap;
                }
                // payload sizes are exact, except for a call (trailing bytes ignored) and a
                // signature check (address followed by an opaque payload)
                if *extra > 0 && !matches!(*tag, 1 | 5) {
                    return MOutcome::Trap;
                }
                if *tag == 1 && 3 > ctx.max_param {
                    return MOutcome::Trap;
                }
                if *tag == 5 {
                    ctx.min_energy += 10 + 42 + *extra as u64;
                }
                if *tag <= 1 {
                    ctx.logs = 0;
                    if ctx.depth == 0 {
                        ctx.sections.push(Vec::new());
                    }
                }
                model_response(resp, ctx)
            }
            SOp::LookupBurst { key, count } => {
                let mut last = NONE64;
                for _ in 0..(*count).max(1) {
                    ctx.min_energy += c_lookup(key.len() as u64);
                    last = match st.map.get(key) {
                        Some((_, uid)) => {
                            st.entries.push((key.clone(), *uid));
                            ((st.gen as u64) << 32) | (st.entries.len() as u64 - 1)
                        }
                        None => NONE64,
                    };
                }
                last
            }
            SOp::ParamBig { len } => {
                let len = (*len).min(8192) as u64;
                ctx.min_energy += c_copy_parameter(len);
                match ctx.params.first() {
                    Some(p) => len.min(p.len() as u64),
                    None => NONE32,
                }
            }
            SOp::LogBurst { count, len } => {
                if DATA_BASE as u64 + *len as u64 > MEM * ctx.pages as u64 {
                    return MOutcome::Trap;
                }
                let mut sum: u32 = 0;
                for _ in 0..(*count).max(1) {
                    if *len <= MAX_LOG_SIZE {
                        ctx.min_energy += 500 + 1000 * *len as u64;
                        if !ctx.limit_logs || ctx.logs < MAX_NUM_LOGS {
                            ctx.logs += 1;
                            if ctx.depth == 0 {
                                ctx.sections.last_mut().unwrap().push(*len);
                            }
                            sum = sum.wrapping_add(1);
                        }
                    } else {
                        sum = sum.wrapping_add(u32::MAX); // -1 each
                    }
                }
                sum as u64
            }
            SOp::MemGrow { pages } => {
                // the host is paid for the announced pages before the growth is attempted
                ctx.min_energy += 100 * *pages as u64;
                if ctx.pages as u64 + *pages as u64 <= max_pages(plan) as u64 {
                    let old = ctx.pages;
                    ctx.pages += *pages;
                    old as u64
                } else {
                    NONE32
                }
            }
            SOp::Upgrade { resp } => {
                ctx.min_energy += 500;
                ctx.logs = 0;
                if ctx.depth == 0 {
                    ctx.sections.push(Vec::new());
                }
                model_response(resp, ctx)
            }
            SOp::Env { func, len, off } => {
                let entry = if si == 0 { "run".to_string() } else { format!("reenter{}", si) };
                let digest_cost = |base: u64, per: u64| base + per * *len as u64;
                match func % ENV_FUNCS {
                    0 => 12345,
                    1 => {
                        rbufs[i][..32].copy_from_slice(&[1u8; 32]);
                        0
                    }
                    2 => 0, // contract <0,0>: sixteen zero bytes
                    3 => {
                        rbufs[i][0] = 0; // tag: account
                        rbufs[i][1..33].copy_from_slice(&[1u8; 32]);
                        0
                    }
                    4 => {
                        rbufs[i][..32].copy_from_slice(&[2u8; 32]);
                        0
                    }
                    5 => entry.len() as u64,
                    6 => {
                        rbufs[i][..entry.len()].copy_from_slice(entry.as_bytes());
                        0
                    }
                    7 => {
                        use sha2::Digest;
                        ctx.min_energy += digest_cost(500, 7);
                        rbufs[i][..32].copy_from_slice(&sha2::Sha256::digest(&msg_bytes(*len)));
                        0
                    }
                    8 => {
                        use sha3::Digest;
                        ctx.min_energy += digest_cost(500, 5);
                        rbufs[i][..32].copy_from_slice(&sha3::Sha3_256::digest(&msg_bytes(*len)));
                        0
                    }
                    9 => {
                        use sha3::Digest;
                        ctx.min_energy += digest_cost(500, 5);
                        rbufs[i][..32].copy_from_slice(&sha3::Keccak256::digest(&msg_bytes(*len)));
                        0
                    }
                    10 => {
                        // the pattern bytes are not a valid signature for any key
                        ctx.min_energy += digest_cost(100_000, 100);
                        0
                    }
                    11 => {
                        ctx.min_energy += 100_000;
                        0
                    }
                    13 => {
                        // only init methods have an origin
                        if !ctx.init {
                            return MOutcome::Trap;
                        }
                        rbufs[i][..32].copy_from_slice(&[9u8; 32]);
                        0
                    }
                    _ => {
                        let l = (*len).min(64) as usize;
                        ctx.min_energy += 10 + l as u64;
                        let p = policy_bytes();
                        let off = *off as usize;
                        let end = off.saturating_add(l).min(p.len());
                        if off > end {
                            return MOutcome::Trap;
                        }
                        let c = &p[off..end];
                        rbufs[i][..c.len()].copy_from_slice(c);
                        c.len() as u64
                    }
                }
            }
            SOp::DeepCall { n, m, resp } => {
                ctx.min_energy += 500;
                // n+1 frames for $down, the interrupt at the bottom, m+1 frames for $down2
                if *n as u64 + 1 > 1024 {
                    return MOutcome::Trap;
                }
                ctx.logs = 0;
                if ctx.depth == 0 {
                    ctx.sections.push(Vec::new());
                }
                let _ = model_response(resp, ctx);
                if *n as u64 + *m as u64 + 2 > 1024 {
                    return MOutcome::Trap;
                }
                7
            }
            SOp::OutOfBounds { func, ptr, len } => {
                let need = match func % 10 {
                    8 | 9 => 32,
                    _ => *len as u64,
                };
                if *ptr as u64 + need > MEM * ctx.pages as u64 {
                    return MOutcome::Trap;
                }
                // (minimised plans may move the pair back inside memory: then the result is not modelled)
                return MOutcome::Done(i32::MIN, Vec::new());
            }
        };
        res[i] = r;
    }
    if let (0, Some(k)) = (si, plan.tail_grow) {
        ctx.min_energy += 100 * k as u64;
        let rv = std::mem::take(&mut ctx.rv);
        return MOutcome::Done(script.code, rv);
    }
    let mut dump = Vec::with_capacity(8 * n);
    for r in &res {
        dump.extend_from_slice(&r.to_le_bytes());
    }
    let mut dump2 = Vec::with_capacity(64 * n);
    for b in &rbufs {
        dump2.extend_from_slice(b);
    }
    let _ = &ctx.mem;
    // the script's own length tracking: L = max over its write_output calls of off + written
    let mut l: u32 = 0;
    for (i, op) in script.ops.iter().enumerate().take(n) {
        if let SOp::WriteOutput { off, .. } = op {
            let t = off.wrapping_add(res[i] as u32);
            if t > l {
                l = t;
            }
        }
    }
    if model_write_output(ctx, RES_BASE as u64, &dump, l).is_none() {
        return MOutcome::Trap;
    }
    if model_write_output(ctx, RB_BASE as u64, &dump2, l.wrapping_add(8 * n as u32)).is_none() {
        return MOutcome::Trap;
    }
    ctx.dump_at = l as usize;
    let rv = std::mem::take(&mut ctx.rv);
    MOutcome::Done(script.code, rv)
}

// ---------------------------------------------------------------------------
// Chain stub
// ---------------------------------------------------------------------------

type Art = Arc<Artifact<ProcessedImports, CompiledFunction>>;

#[derive(Debug, Clone, PartialEq)]
enum ROutcome {
    Done { code: i32, rv: Vec<u8> },
    Trap,
    OutOfEnergy,
}

struct Chain<'a> {
    plan:       &'a VPlan,
    art:        Art,
    params:     ReceiveParams,
    disk:       SimDisk,
    interrupts: u32,
    reentries:  u32,
    rollbacks:  u32,
    /// first interrupt whose kind or content does not match the operation that caused it
    kind_mismatch: Option<String>,
    /// events of the outermost activation as received: per state-affecting interrupt and at the end
    sections: Vec<Vec<u32>>,
    /// a query interrupt delivered events (it must not)
    query_with_logs: bool,
}

/// The interrupt handed to the chain must be the operation the contract asked for, with the
/// payload it passed (tags as in the host interface; 100 = upgrade).
fn interrupt_mismatch(i: &v1::Interrupt, tag: u32, extra: u32) -> Option<String> {
    let acct = AccountAddress([7u8; 32]);
    let other = ContractAddress::new(9, 1);
    let ok = match (tag, i) {
        (0, v1::Interrupt::Transfer { to, amount }) => *to == acct && amount.micro_ccd == 5,
        (1, v1::Interrupt::Call { address, parameter, name, amount }) => {
            *address == ContractAddress::new(9, 0) && parameter[..] == [1, 2, 3] && name.to_string() == "foo" && amount.micro_ccd == 0
        }
        (2, v1::Interrupt::QueryAccountBalance { address }) => *address == acct,
        (3, v1::Interrupt::QueryContractBalance { address }) => *address == other,
        (4, v1::Interrupt::QueryExchangeRates) => true,
        (5, v1::Interrupt::CheckAccountSignature { address, payload }) => {
            *address == acct && payload.len() == 10 + extra as usize && payload[..10] == [0xab; 10] && payload[10..].iter().all(|b| *b == 0)
        }
        (6, v1::Interrupt::QueryAccountKeys { address }) => *address == acct,
        (7, v1::Interrupt::QueryContractModuleReference { address }) => *address == other,
        (8, v1::Interrupt::QueryContractName { address }) => *address == other,
        (100, v1::Interrupt::Upgrade { module_ref }) => {
            let b: &[u8] = module_ref.as_ref();
            b.iter().enumerate().all(|(k, x)| *x == k as u8)
        }
        _ => false,
    };
    if !ok {
        return Some(format!("operation with tag {} (100 = upgrade) reached the chain as {:?}", tag, i));
    }
    // the form in which the interrupt is handed to the scheduler (frozen copy of the layout)
    let mut want: Vec<u8> = Vec::new();
    let other_be = {
        let mut b = 9u64.to_be_bytes().to_vec();
        b.extend_from_slice(&1u64.to_be_bytes());
        b
    };
    match tag {
        0 => {
            want.push(0);
            want.extend_from_slice(&[7u8; 32]);
            want.extend_from_slice(&5u64.to_be_bytes());
        }
        1 => {
            want.push(1);
            want.extend_from_slice(&9u64.to_be_bytes());
            want.extend_from_slice(&0u64.to_be_bytes());
            want.extend_from_slice(&3u16.to_be_bytes());
            want.extend_from_slice(&[1, 2, 3]);
            want.extend_from_slice(&3u16.to_be_bytes());
            want.extend_from_slice(b"foo");
            want.extend_from_slice(&0u64.to_be_bytes());
        }
        100 => {
            want.push(2);
            want.extend(0..32u8);
        }
        2 => {
            want.push(3);
            want.extend_from_slice(&[7u8; 32]);
        }
        3 => {
            want.push(4);
            want.extend_from_slice(&other_be);
        }
        4 => want.push(5),
        5 => {
            want.push(6);
            want.extend_from_slice(&[7u8; 32]);
            want.extend_from_slice(&(10 + extra as u64).to_be_bytes());
            want.extend_from_slice(&[0xab; 10]);
            want.extend(std::iter::repeat(0u8).take(extra as usize));
        }
        6 => {
            want.push(7);
            want.extend_from_slice(&[7u8; 32]);
        }
        7 => {
            want.push(8);
            want.extend_from_slice(&other_be);
        }
        _ => {
            want.push(9);
            want.extend_from_slice(&other_be);
        }
    }
    let mut got = Vec::new();
    if i.to_bytes(&mut got).is_err() || got != want {
        return Some(format!("the interrupt {:?} is handed to the scheduler as {} instead of {}", i, hx(&got), hx(&want)));
    }
    None
}

fn ctx_for(entry: &str, balance: u64) -> ReceiveContext<Vec<u8>> {
    ReceiveContext {
        common:     v0::ReceiveContext {
            metadata:        ChainMetadata {
                slot_time: Timestamp::from_timestamp_millis(12345),
            },
            invoker:         AccountAddress([1u8; 32]),
            self_address:    ContractAddress::new(0, 0),
            self_balance:    Amount::from_micro_ccd(balance),
            sender:          Address::Account(AccountAddress([1u8; 32])),
            owner:           AccountAddress([2u8; 32]),
            sender_policies: policy_bytes(),
        },
        entrypoint: OwnedEntrypointName::new_unchecked(entry.to_string()),
    }
}

impl Chain<'_> {
    /// Run entrypoint `si` on `state` (already a fresh generation owned by this invocation).
    /// Returns the outcome, whether the state changed, and the remaining energy.
    fn run(&mut self, si: usize, state: &mut MutableState, param: &[u8], energy: u64, balance: &mut u64, depth: u32) -> (ROutcome, bool, u64) {
        let entry = if si == 0 { "run".to_string() } else { format!("reenter{}", si) };
        let name = format!("c.{}", entry);
        let mut changed_total = false;
        let mut other_k = 0usize;
        let mut result = {
            let inner = state.get_inner(&mut self.disk);
            let inst = InstanceState::new(&mut self.disk, inner);
            let inv = ReceiveInvocation {
                amount:       Amount::from_micro_ccd(0),
                receive_name: ReceiveName::new_unchecked(&name),
                parameter:    param,
                energy:       InterpreterEnergy { energy },
            };
            if self.plan.protocol % 2 == 0 {
                v1::invoke_receive::<_, _, _, _, _, ReceiveContext<Vec<u8>>, ()>(self.art.clone(), ctx_for(&entry, *balance), inv, inst, self.params)
            } else {
                // the way the node starts an execution: the context borrows its policy bytes and is
                // converted to an owned one when the host is saved at the first interrupt
                let owned = ctx_for(&entry, *balance);
                let policies = policy_bytes();
                let borrowed: ReceiveContext<&[u8]> = ReceiveContext {
                    common:     v0::ReceiveContext {
                        metadata:        owned.common.metadata,
                        invoker:         owned.common.invoker,
                        self_address:    owned.common.self_address,
                        self_balance:    owned.common.self_balance,
                        sender:          owned.common.sender,
                        owner:           owned.common.owner,
                        sender_policies: &policies[..],
                    },
                    entrypoint: owned.entrypoint.clone(),
                };
                v1::invoke_receive::<_, _, _, _, _, ReceiveContext<Vec<u8>>, ()>(self.art.clone(), borrowed, inv, inst, self.params)
            }
        };
        loop {
            match result {
                Err(_) => return (ROutcome::Trap, false, 0),
                Ok(ReceiveResult::Success {
                    state_changed,
                    return_value,
                    remaining_energy,
                    logs,
                    ..
                }) => {
                    if depth == 0 {
                        self.sections.push(logs.logs.iter().map(|l| l.len() as u32).collect());
                    }
                    return (
                        ROutcome::Done {
                            code: 0,
                            rv:   return_value,
                        },
                        changed_total || state_changed,
                        remaining_energy.energy,
                    )
                }
                Ok(ReceiveResult::Reject {
                    reason,
                    return_value,
                    remaining_energy,
                    ..
                }) => {
                    return (
                        ROutcome::Done {
                            code: reason,
                            rv:   return_value,
                        },
                        false,
                        remaining_energy.energy,
                    )
                }
                Ok(ReceiveResult::Trap { remaining_energy, .. }) => return (ROutcome::Trap, false, remaining_energy.energy),
                Ok(ReceiveResult::OutOfEnergy { .. }) => return (ROutcome::OutOfEnergy, false, 0),
                Ok(ReceiveResult::Interrupt {
                    remaining_energy,
                    state_changed,
                    config,
                    interrupt,
                    logs,
                    ..
                }) => {
                    if depth == 0 {
                        let lens: Vec<u32> = logs.logs.iter().map(|l| l.len() as u32).collect();
                        if matches!(interrupt, v1::Interrupt::Transfer { .. } | v1::Interrupt::Call { .. } | v1::Interrupt::Upgrade { .. }) {
                            self.sections.push(lens);
                        } else if !lens.is_empty() {
                            self.query_with_logs = true;
                        }
                    }
                    self.interrupts += 1;
                    changed_total |= state_changed;
                    let mut energy_left = remaining_energy.energy;
                    let mut state_updated = false;
                    let response = match interrupt {
                        v1::Interrupt::Call { address, name, .. } if address == ContractAddress::new(0, 0) => {
                            // re-entrancy on this very instance
                            let n: String = name.to_string();
                            let target = n.strip_prefix("reenter").and_then(|x| x.parse::<usize>().ok());
                            match target {
                                Some(t) if t > 0 && t < self.plan.scripts.len() && depth < 3 => {
                                    self.reentries += 1;
                                    let mut nested = state.make_fresh_generation(&mut self.disk);
                                    let p = [t as u8, 0xAA];
                                    let saved_balance = *balance;
                                    let (o, ch, rem) = self.run(t, &mut nested, &p, energy_left, balance, depth + 1);
                                    energy_left = rem;
                                    if !matches!(o, ROutcome::Done { code, .. } if code >= 0) {
                                        // a failed call is rolled back, balance included
                                        *balance = saved_balance;
                                    }
                                    match o {
                                        ROutcome::OutOfEnergy => return (ROutcome::OutOfEnergy, false, 0),
                                        ROutcome::Trap => {
                                            self.rollbacks += 1;
                                            InvokeResponse::Failure {
                                                kind: InvokeFailure::RuntimeError,
                                            }
                                        }
                                        ROutcome::Done { code, rv } if code < 0 => {
                                            self.rollbacks += 1;
                                            InvokeResponse::Failure {
                                                kind: InvokeFailure::ContractReject { code, data: rv },
                                            }
                                        }
                                        ROutcome::Done { rv, .. } => {
                                            if ch {
                                                // commit: continue on the callee's generation
                                                *state = nested;
                                                state_updated = true;
                                                changed_total = true;
                                            }
                                            InvokeResponse::Success {
                                                new_balance: Amount::from_micro_ccd(*balance),
                                                data:        Some(rv),
                                            }
                                        }
                                    }
                                }
                                _ => InvokeResponse::Failure {
                                    kind: InvokeFailure::NonExistentEntrypoint,
                                },
                            }
                        }
                        other => {
                            // scripted answer: the k-th "other" invoke of this script in program order
                            let scripted = self.plan.scripts[si]
                                .ops
                                .iter()
                                .filter_map(|o| match o {
                                    SOp::InvokeOther { resp, tag, extra } => Some((resp.clone(), *tag, *extra)),
                                    SOp::DeepCall { resp, .. } => Some((resp.clone(), 0, 0)),
                                    SOp::Upgrade { resp } => Some((resp.clone(), 100, 0)),
                                    _ => None,
                                })
                                .nth(other_k);
                            if let Some((_, tag, extra)) = &scripted {
                                if let Some(m) = interrupt_mismatch(&other, *tag, *extra) {
                                    if self.kind_mismatch.is_none() {
                                        self.kind_mismatch = Some(m);
                                    }
                                }
                            }
                            let scripted = scripted.map(|x| x.0);
                            other_k += 1;
                            match scripted {
                                Some(Response::Success { data, has_data, new_balance }) => {
                                    *balance = new_balance;
                                    InvokeResponse::Success {
                                        new_balance: Amount::from_micro_ccd(new_balance),
                                        data:        if has_data { Some(data) } else { None },
                                    }
                                }
                                Some(Response::Failure(k)) => InvokeResponse::Failure { kind: failure_kind(k) },
                                None => InvokeResponse::Failure {
                                    kind: InvokeFailure::RuntimeError,
                                },
                            }
                        }
                    };
                    result = match v1::resume_receive::<_, ()>(
                        config,
                        response,
                        InterpreterEnergy { energy: energy_left },
                        state,
                        state_updated,
                        &mut self.disk,
                    ) {
                        Ok(r) => Ok(r),
                        Err(_) => return (ROutcome::Trap, false, 0),
                    };
                }
            }
        }
    }
}

// ---------------------------------------------------------------------------
// Generator
// ---------------------------------------------------------------------------

fn g_key(rng: &mut Rng, pool: &mut Vec<Vec<u8>>) -> Vec<u8> {
    if !pool.is_empty() && rng.chance(3, 4) {
        let k = rng.pick(pool).clone();
        match rng.below(6) {
            0 => k[..rng.urange(0, k.len())].to_vec(),
            1 => {
                let mut k2 = k;
                k2.push(*rng.pick(&[0x00u8, 0x10, 0x11, 0xff]));
                k2
            }
            _ => k,
        }
    } else {
        let n = rng.urange(0, 4);
        let k: Vec<u8> = (0..n).map(|_| *rng.pick(&[0x00u8, 0x10, 0x11, 0x12, 0xff])).collect();
        if pool.len() < 12 {
            pool.push(k.clone());
        }
        k
    }
}

fn g_val(rng: &mut Rng, tag: &mut u8) -> Vec<u8> {
    *tag = tag.wrapping_add(1);
    let n = *rng.pick(&[0usize, 1, 3, 8, 20, 63, 64]);
    (0..n).map(|i| if i == 0 { *tag } else { (i as u8) ^ *tag }).collect()
}

fn g_script(rng: &mut Rng, focus: VFocus, nscripts: usize, pool: &mut Vec<Vec<u8>>, tag: &mut u8, is_main: bool) -> Script {
    let n = match rng.below(8) {
        0 => rng.urange(1, 3),
        7 if focus == VFocus::Host && rng.chance(1, 3) => rng.urange(66, 90),
        _ => rng.urange(3, 22),
    };
    let flood = n >= 66;
    let oob_script = rng.chance(1, 5);
    let mut rv_len: u32 = 0;
    let deep_script = rng.chance(1, 8);
    let mut ops: Vec<SOp> = Vec::new();
    let mut entries: Vec<usize> = Vec::new();
    let mut iters: Vec<usize> = Vec::new();
    let w_iter = if focus == VFocus::Handles { 6 } else { 2 };
    let w_invoke = if focus == VFocus::Host { 2 } else { 3 };
    let w_misc = if focus == VFocus::Host { 4 } else { 1 };
    for i in 0..n {
        if flood {
            ops.push(SOp::LogEvent {
                len: *rng.pick(&[0u32, 4, 512]),
            });
            continue;
        }
        let eh = |rng: &mut Rng, entries: &Vec<usize>, iters: &Vec<usize>| -> HRef {
            match rng.below(12) {
                0 => HRef::Const(*rng.pick(&[0u64, 1, u64::MAX, 1 << 32, (1 << 32) | 1, 7, ERR64])),
                1 if !iters.is_empty() => HRef::Res(*rng.pick(iters)),
                2 if i > 0 => HRef::Res(rng.usize_below(i)),
                _ if !entries.is_empty() => HRef::Res(*rng.pick(entries)),
                _ => HRef::Const(0),
            }
        };
        let ih = |rng: &mut Rng, entries: &Vec<usize>, iters: &Vec<usize>| -> HRef {
            match rng.below(12) {
                0 => HRef::Const(*rng.pick(&[0u64, 1, u64::MAX, 1 << 32, 5])),
                1 if !entries.is_empty() => HRef::Res(*rng.pick(entries)),
                _ if !iters.is_empty() => HRef::Res(*rng.pick(iters)),
                _ => HRef::Const(0),
            }
        };
        // at most a few hostile out-of-bounds pairs: most transactions should get past them
        let w_oob = if oob_script && !ops.iter().any(|o| matches!(o, SOp::OutOfBounds { .. })) { 1 } else { 0 };
        if deep_script && i == n / 2 {
            let total = *rng.pick(&[3u32, 40, 1023, 1024, 1025, 1030]);
            let nn = rng.range(0, (total - 2) as u64) as u32;
            ops.push(SOp::DeepCall {
                n:    nn,
                m:    total - 2 - nn,
                resp: if rng.coin() {
                    Response::Success {
                        data:        Vec::new(),
                        has_data:    false,
                        new_balance: rng.below(1000),
                    }
                } else {
                    Response::Failure(rng.below(8) as u8)
                },
            });
            continue;
        }
        let groups = [6u32, 6, w_iter, w_invoke, w_misc, w_oob];
        let op = match rng.weighted(&groups) {
            0 => match rng.below(6) {
                0 if rng.chance(1, 40) => {
                    // very many handles in one generation (the last one is the result)
                    entries.push(i);
                    SOp::LookupBurst {
                        key:   g_key(rng, pool),
                        count: *rng.pick(&[2u32, 255, 256, 65535, 65536, 65537, 70000]),
                    }
                }
                0 | 1 => {
                    entries.push(i);
                    SOp::Lookup { key: g_key(rng, pool) }
                }
                2 | 3 => {
                    entries.push(i);
                    SOp::Create { key: g_key(rng, pool) }
                }
                4 => SOp::Delete { key: g_key(rng, pool) },
                _ => SOp::DeletePrefix { key: g_key(rng, pool) },
            },
            1 => match rng.below(6) {
                0 | 1 => SOp::EntryRead {
                    e:   eh(rng, &entries, &iters),
                    len: *rng.pick(&[0u32, 1, 8, 64]),
                    off: *rng.pick(&[0u32, 0, 1, 5, 100, u32::MAX]),
                },
                2 | 3 => SOp::EntryWrite {
                    e:    eh(rng, &entries, &iters),
                    data: g_val(rng, tag),
                    off:  *rng.pick(&[0u32, 0, 1, 3, 64, 1000]),
                },
                4 => SOp::EntrySize {
                    e: eh(rng, &entries, &iters),
                },
                _ => SOp::EntryResize {
                    e:    eh(rng, &entries, &iters),
                    size: *rng.pick(&[0u32, 1, 10, 64, 200, (1 << 30) + 1, u32::MAX]),
                },
            },
            2 => match rng.below(8) {
                0 | 1 => {
                    iters.push(i);
                    SOp::Iterate { key: g_key(rng, pool) }
                }
                2 | 3 | 4 => {
                    entries.push(i);
                    SOp::IterNext {
                        it: ih(rng, &entries, &iters),
                    }
                }
                5 => SOp::IterDelete {
                    it: ih(rng, &entries, &iters),
                },
                6 => SOp::IterKeySize {
                    it: ih(rng, &entries, &iters),
                },
                _ => SOp::IterKeyRead {
                    it:  ih(rng, &entries, &iters),
                    len: *rng.pick(&[0u32, 2, 64]),
                    off: *rng.pick(&[0u32, 0, 1, 9]),
                },
            },
            3 => {
                if nscripts > 1 && rng.chance(2, 3) {
                    SOp::InvokeSelf {
                        script: if rng.chance(1, 10) { rng.usize_below(nscripts + 1) } else { rng.urange(1, nscripts - 1) },
                    }
                } else {
                    let tag_ = *rng.pick(&[0u32, 0, 1, 1, 1, 2, 3, 4, 5, 6, 7, 8, 9, 10]);
                    let resp = if rng.coin() {
                        Response::Success {
                            data:        {
                                let n = rng.urange(0, 10);
                                rng.bytes(n)
                            },
                            has_data:    rng.coin(),
                            new_balance: rng.below(1000),
                        }
                    } else {
                        Response::Failure(rng.below(10) as u8)
                    };
                    if focus == VFocus::Host && rng.chance(1, 8) {
                        SOp::Upgrade { resp }
                    } else {
                        SOp::InvokeOther {
                            tag: tag_,
                            resp,
                            extra: if rng.chance(1, 6) { *rng.pick(&[1u32, 8, 100]) } else { 0 },
                        }
                    }
                }
            }
            4 => match rng.below(9) {
                // (never together with an out-of-bounds operation: growth would move the bound)
                7 if !oob_script && rng.chance(1, 3) => SOp::MemGrow {
                    pages: *rng.pick(&[0u32, 1, 1, 2, 3, 511, 512, 513, 65535, 65536]),
                },
                7 | 8 => SOp::Env {
                    func: rng.below(ENV_FUNCS as u64) as u8,
                    len:  *rng.pick(&[0u32, 1, 31, 32, 64, 65, 136, 1000]),
                    off:  *rng.pick(&[0u32, 0, 1, 39, 40, 41, u32::MAX]),
                },
                0 => SOp::ParamSize { i: rng.below(4) as u32 },
                1 if rng.chance(1, 4) => SOp::ParamBig {
                    len: *rng.pick(&[65u32, 1023, 1024, 1025, 1500, 2047, 2048, 4000]),
                },
                1 | 2 => SOp::ParamSection {
                    i:   rng.below(4) as u32,
                    len: *rng.pick(&[0u32, 1, 4, 64]),
                    off: *rng.pick(&[0u32, 0, 0, 1, 1, 2, 2, 40, u32::MAX]),
                },
                3 if rng.chance(1, 5) => SOp::LogBurst {
                    count: *rng.pick(&[2u32, 63, 64, 65, 66, 130]),
                    len:   *rng.pick(&[0u32, 1, 3, 513]),
                },
                3 => SOp::LogEvent {
                    len: *rng.pick(&[0u32, 1, 511, 512, 513, 4000]),
                },
                4 | 5 => {
                    // offsets mostly where the return value currently ends (tracked approximately)
                    let len = *rng.pick(&[0u32, 1, 100, 4000, 9000, 12000]);
                    let off = match rng.below(6) {
                        0 => 0,
                        1 => rv_len + 1,
                        2 => rv_len / 2,
                        _ => rv_len,
                    };
                    rv_len = rv_len.max(off.saturating_add(len)).min(40000);
                    SOp::WriteOutput { len, off }
                }
                _ => SOp::SelfBalance,
            },
            _ => {
                let func = rng.below(10) as u8;
                let len = match func {
                    // log_event looks at the pointer whatever the length is; hashes check before charging
                    4 | 6 => *rng.pick(&[1u32, 7, 64, 512, 513, 600, 4097, 70000]),
                    8 | 9 => 32,
                    _ => *rng.pick(&[1u32, 7, 37, 64]),
                };
                // the pair always reaches beyond the single 64 KiB page, by one byte or by a lot
                let ptr = match rng.below(5) {
                    0 | 2 if len > 65536 => 0,
                    0 => 65536 - len + 1,
                    1 => 65536,
                    2 => 65536 - len + rng.range(1, len as u64) as u32,
                    3 => u32::MAX,
                    _ => 0x8000_0000,
                };
                SOp::OutOfBounds { func, ptr, len }
            }
        };
        ops.push(op);
    }
    Script {
        ops,
        code: if is_main {
            if rng.chance(1, 8) {
                -(rng.range(1, 100) as i32)
            } else {
                0
            }
        } else if rng.chance(1, 3) {
            -(rng.range(1, 100) as i32)
        } else {
            0
        },
    }
}

pub fn generate(rng: &mut Rng, tier: Tier, focus: VFocus) -> VPlan {
    let mut p = generate_receive(rng, tier, focus);
    if focus == VFocus::Host && rng.chance(1, 25) {
        p.bad_import = Some((rng.below(HOSTS.len() as u64) as u8, rng.below(4) as u8));
        return p;
    }
    if (focus == VFocus::Host || focus == VFocus::Energy) && rng.chance(1, 6) {
        // initialisation of an instance: empty state, scripts[0] as the init method
        p.init = true;
        p.initial.clear();
        p.from_disk = false;
        // most init plans stay clear of receive-only functions (which trap), some do not
        if rng.chance(4, 5) {
            for s in p.scripts.iter_mut().take(1) {
                // replaced in place so that references to earlier results stay valid
                for op in s.ops.iter_mut() {
                    let receive_only = match op {
                        SOp::SelfBalance | SOp::InvokeSelf { .. } | SOp::InvokeOther { .. } | SOp::Upgrade { .. } | SOp::DeepCall { .. } => true,
                        SOp::Env { func, .. } => (1..=6).contains(&(*func % ENV_FUNCS)),
                        SOp::OutOfBounds { func, .. } => *func % 10 == 8,
                        _ => false,
                    };
                    if receive_only {
                        *op = if rng.coin() {
                            SOp::Env {
                                func: 13,
                                len:  0,
                                off:  0,
                            }
                        } else {
                            SOp::ParamSize { i: rng.below(2) as u32 }
                        };
                    }
                }
            }
        }
    }
    p
}

fn generate_receive(rng: &mut Rng, _tier: Tier, focus: VFocus) -> VPlan {
    let mut pool: Vec<Vec<u8>> = Vec::new();
    let mut tag = 0u8;
    let ninit = rng.urange(0, 6);
    let mut initial = Vec::new();
    for _ in 0..ninit {
        let k = g_key(rng, &mut pool);
        initial.push((k, g_val(rng, &mut tag)));
    }
    let nscripts = rng.urange(1, 3);
    let scripts = (0..nscripts).map(|i| g_script(rng, focus, nscripts, &mut pool, &mut tag, i == 0)).collect();
    VPlan {
        focus,
        initial,
        scripts,
        param: {
            let n = *rng.pick(&[0usize, 1, 2, 40]);
            rng.bytes(n)
        },
        protocol: rng.range(4, 7) as u8,
        from_disk: rng.coin(),
        energy: 50_000_000,
        cuts: (0..rng.urange(1, 5)).map(|_| rng.range(0, 999) as u32).collect(),
        shrunk: false,
        tail_grow: if focus == VFocus::Energy && rng.chance(1, 4) { Some(rng.range(1, 2) as u32) } else { None },
        init: false,
        bad_import: None,
    }
}

// ---------------------------------------------------------------------------
// Executor
// ---------------------------------------------------------------------------

fn params_for(p: u8) -> ReceiveParams {
    match p {
        4 => ReceiveParams::new_p4(),
        5 => ReceiveParams::new_p5(),
        6 => ReceiveParams::new_p6(),
        _ => ReceiveParams::new_p7(),
    }
}

struct RunOut {
    outcome:   ROutcome,
    remaining: u64,
    /// contents and hash of the committed state (success only)
    state:     Option<(Vec<(Vec<u8>, Vec<u8>)>, Vec<u8>)>,
    interrupts: u32,
    reentries: u32,
    rollbacks: u32,
    origin_intact: bool,
    kind_mismatch: Option<String>,
    sections: Vec<Vec<u32>>,
    query_with_logs: bool,
}

/// Initialisation of an instance: scripts[0] as `init_c` on an empty state.
fn run_init_once(plan: &VPlan, art: &Art, energy: u64) -> RunOut {
    concordium_wasm::machine::verif_hooks::reset(0);
    let mut disk = SimDisk::new();
    let params = params_for(plan.protocol);
    let ctx = v0::InitContext {
        metadata:        ChainMetadata {
            slot_time: Timestamp::from_timestamp_millis(12345),
        },
        init_origin:     AccountAddress([9u8; 32]),
        sender_policies: policy_bytes(),
    };
    let r = v1::invoke_init::<_, _, ()>(
        &**art,
        ctx,
        v1::InitInvocation {
            amount:    Amount::from_micro_ccd(0),
            init_name: "init_c",
            parameter: &plan.param,
            energy:    InterpreterEnergy { energy },
        },
        params.limit_logs_and_return_values,
        &mut disk,
    );
    let mut sections = Vec::new();
    let (outcome, remaining, state) = match r {
        Err(_) => (ROutcome::Trap, 0, None),
        Ok(v1::InitResult::Success {
            logs,
            return_value,
            remaining_energy,
            mut state,
            ..
        }) => {
            sections.push(logs.logs.iter().map(|l| l.len() as u32).collect());
            let frozen = state.freeze(&mut disk, &mut EmptyCollector);
            let all: Vec<(Vec<u8>, Vec<u8>)> = frozen.clone().into_iterator(&mut disk).collect();
            let h = frozen.hash(&mut disk);
            let hb: &[u8] = h.as_ref();
            (
                ROutcome::Done {
                    code: 0,
                    rv:   return_value,
                },
                remaining_energy.energy,
                Some((all, hb.to_vec())),
            )
        }
        Ok(v1::InitResult::Reject {
            reason,
            return_value,
            remaining_energy,
            ..
        }) => (
            ROutcome::Done {
                code: reason,
                rv:   return_value,
            },
            remaining_energy.energy,
            None,
        ),
        Ok(v1::InitResult::Trap { remaining_energy, .. }) => (ROutcome::Trap, remaining_energy.energy, None),
        Ok(v1::InitResult::OutOfEnergy { .. }) => (ROutcome::OutOfEnergy, 0, None),
    };
    RunOut {
        outcome,
        remaining,
        state,
        interrupts: 0,
        reentries: 0,
        rollbacks: 0,
        origin_intact: true,
        kind_mismatch: None,
        sections,
        query_with_logs: false,
    }
}

fn run_once(plan: &VPlan, art: &Art, energy: u64) -> RunOut {
    if plan.init {
        return run_init_once(plan, art, energy);
    }
    // chain-level runs are bounded by the engine's own energy accounting: no step limit of an
    // earlier machine-level run on this thread may linger
    concordium_wasm::machine::verif_hooks::reset(0);
    let mut chain = Chain {
        plan,
        art: art.clone(),
        params: params_for(plan.protocol),
        disk: SimDisk::new(),
        interrupts: 0,
        reentries: 0,
        rollbacks: 0,
        kind_mismatch: None,
        sections: Vec::new(),
        query_with_logs: false,
    };
    let mut ps = PersistentState::from_iterator(plan.initial.iter().map(|(k, v)| (&k[..], v.clone())));
    if plan.from_disk {
        let r = ps.store_update(&mut chain.disk).expect("store on a fault-free disk");
        chain.disk.sync();
        ps = PersistentState::load_from_location(&mut chain.disk, r).expect("load what was just stored");
    }
    let mut base = ps.thaw();
    let mut working = base.make_fresh_generation(&mut chain.disk);
    let mut balance = 100u64;
    let (outcome, _changed, remaining) = chain.run(0, &mut working, &plan.param, energy, &mut balance, 0);
    let state = match &outcome {
        ROutcome::Done { code, .. } if *code >= 0 => {
            let frozen = working.freeze(&mut chain.disk, &mut EmptyCollector);
            let all: Vec<(Vec<u8>, Vec<u8>)> = frozen.clone().into_iterator(&mut chain.disk).collect();
            let h = frozen.hash(&mut chain.disk);
            let hb: &[u8] = h.as_ref();
            Some((all, hb.to_vec()))
        }
        _ => None,
    };
    drop(working);
    // the state the transaction started from must be untouched
    let mut m: BTreeMap<Vec<u8>, Vec<u8>> = BTreeMap::new();
    for (k, v) in &plan.initial {
        m.insert(k.clone(), v.clone());
    }
    let want: Vec<(Vec<u8>, Vec<u8>)> = m.into_iter().collect();
    let got: Vec<(Vec<u8>, Vec<u8>)> = ps.clone().into_iterator(&mut chain.disk).collect();
    // The base generation shares its trie with the working one; freezing the working state
    // consumes that trie, so the base generation is only inspected when nothing was committed.
    let got2: Vec<(Vec<u8>, Vec<u8>)> = if state.is_none() {
        let base_frozen = base.freeze(&mut chain.disk, &mut EmptyCollector);
        base_frozen.into_iterator(&mut chain.disk).collect()
    } else {
        want.clone()
    };
    RunOut {
        outcome,
        remaining,
        state,
        interrupts: chain.interrupts,
        reentries: chain.reentries,
        rollbacks: chain.rollbacks,
        origin_intact: got == want && got2 == want,
        kind_mismatch: chain.kind_mismatch,
        sections: chain.sections,
        query_with_logs: chain.query_with_logs,
    }
}

fn hx(b: &[u8]) -> String {
    if b.len() > 40 {
        format!("{}…({}B)", hex::encode(&b[..40]), b.len())
    } else {
        hex::encode(b)
    }
}

fn viol(oracle: &str, sig: impl Into<String>, detail: String) -> Option<Violation> { Some(Violation::new(oracle, sig, detail, 0)) }

/// Which result slots belong to the property in focus (C15 only looks at state / iterator / entry / invoke results).
fn slot_in_focus(focus: VFocus, op: &SOp) -> bool {
    match focus {
        VFocus::Host | VFocus::Resume | VFocus::Energy => true,
        VFocus::Handles => !matches!(op, SOp::ParamSize { .. } | SOp::ParamSection { .. } | SOp::LogEvent { .. } | SOp::WriteOutput { .. } | SOp::SelfBalance | SOp::OutOfBounds { .. } | SOp::Env { .. } | SOp::MemGrow { .. } | SOp::LogBurst { .. } | SOp::ParamBig { .. }),
    }
}

fn op_name(op: &SOp) -> &'static str {
    match op {
        SOp::Lookup { .. } => "state_lookup_entry",
        SOp::Create { .. } => "state_create_entry",
        SOp::Delete { .. } => "state_delete_entry",
        SOp::DeletePrefix { .. } => "state_delete_prefix",
        SOp::Iterate { .. } => "state_iterate_prefix",
        SOp::IterNext { .. } => "state_iterator_next",
        SOp::IterDelete { .. } => "state_iterator_delete",
        SOp::IterKeySize { .. } => "state_iterator_key_size",
        SOp::IterKeyRead { .. } => "state_iterator_key_read",
        SOp::EntryRead { .. } => "state_entry_read",
        SOp::EntryWrite { .. } => "state_entry_write",
        SOp::EntrySize { .. } => "state_entry_size",
        SOp::EntryResize { .. } => "state_entry_resize",
        SOp::ParamSize { .. } => "get_parameter_size",
        SOp::ParamSection { .. } => "get_parameter_section",
        SOp::LogEvent { .. } => "log_event",
        SOp::WriteOutput { .. } => "write_output",
        SOp::SelfBalance => "get_receive_self_balance",
        SOp::InvokeSelf { .. } => "invoke(self)",
        SOp::InvokeOther { .. } => "invoke",
        SOp::Upgrade { .. } => "upgrade",
        SOp::MemGrow { .. } => "memory.grow",
        SOp::LogBurst { .. } => "log_event (burst)",
        SOp::LookupBurst { .. } => "state_lookup_entry (burst)",
        SOp::ParamBig { .. } => "get_parameter_section (large)",
        SOp::Env { func, .. } => match *func % ENV_FUNCS {
            13 => "get_init_origin",
            f => HOSTS[19 + f as usize].0,
        },
        SOp::OutOfBounds { .. } => "out-of-bounds",
        SOp::DeepCall { .. } => "deep-call",
    }
}

/// After an iterator is exhausted its key is implementation defined: such slots are not compared.
fn dont_care_slots(plan: &VPlan, rv_model: &[u8]) -> Vec<bool> {
    let script = &plan.scripts[0];
    let n = script.ops.len().min(MAX_OPS);
    let res = |j: usize| -> u64 { u64::from_le_bytes(rv_model[8 * j..8 * j + 8].try_into().unwrap()) };
    let mut dc = vec![false; n];
    // iterator result slot -> exhausted?
    let mut exhausted: Vec<u64> = Vec::new();
    for i in 0..n {
        match &script.ops[i] {
            SOp::IterNext { it } => {
                let h = match it {
                    HRef::Res(j) if *j < i => res(*j),
                    HRef::Const(c) => *c,
                    _ => 0,
                };
                if res(i) == NONE64 {
                    exhausted.push(h);
                }
            }
            SOp::IterKeySize { it } | SOp::IterKeyRead { it, .. } => {
                let h = match it {
                    HRef::Res(j) if *j < i => res(*j),
                    HRef::Const(c) => *c,
                    _ => 0,
                };
                if exhausted.contains(&h) {
                    dc[i] = true;
                }
            }
            _ => {}
        }
    }
    dc
}

pub fn execute(plan: &VPlan, rec: &mut Recorder) -> Option<Violation> {
    if let Some((idx, kind)) = plan.bad_import {
        // A module that declares a host function with another type than the documented one must not
        // pass validation (its calls would leave the interpreter's stack in disorder). Only the
        // import's declaration is perturbed; no function of the module calls anything.
        let mut p = plan.clone();
        for s in p.scripts.iter_mut() {
            s.ops.clear();
        }
        p.tail_grow = None;
        let bytes = emit_module(&p);
        rec.op();
        rec.log_bytes(&bytes);
        rec.probe("ill_typed_import_declared");
        let r = utils::instantiate_with_metering::<ProcessedImports>(
            ValidationConfig::V1,
            CostConfigurationV1,
            &ConcordiumAllowedImports {
                support_upgrade: true,
                enable_debug:    false,
            },
            &bytes,
        );
        if r.is_ok() && plan.focus == VFocus::Host {
            return viol(
                "outcome",
                "host/ill-typed-import-accepted",
                format!(
                    "a module that imports {} with a type other than the documented one (perturbation {}) passes validation",
                    HOSTS[idx as usize % HOSTS.len()].0,
                    kind % 4
                ),
            );
        }
        return None;
    }
    let bytes = emit_module(plan);
    let inst = utils::instantiate_with_metering::<ProcessedImports>(
        ValidationConfig::V1,
        CostConfigurationV1,
        &ConcordiumAllowedImports {
            support_upgrade: true,
            enable_debug:    false,
        },
        &bytes,
    );
    let art: Art = match inst {
        Ok(i) => Arc::new(i.artifact),
        Err(e) => {
            if plan.shrunk {
                return None;
            }
            return Some(Violation::new("harness", "harness/module-rejected", format!("script module rejected: {:#}", e), 0));
        }
    };
    simcore::alloc::set_dirty_limit((1 + max_pages(plan) as usize) * 65536);
    rec.op();
    rec.log_bytes(&bytes);
    if plan.tail_grow.is_some() {
        rec.probe("memory_growth_is_last_charge");
    }
    for op in plan.scripts.iter().flat_map(|s| s.ops.iter()) {
        match op {
            SOp::Env { func, .. } => rec.probe(if (7..=11).contains(&(func % ENV_FUNCS)) { "script_has_hash_or_signature_call" } else { "script_has_environment_getter" }),
            SOp::Upgrade { .. } => rec.probe("script_has_upgrade"),
            SOp::InvokeOther { tag, .. } if (5..=8).contains(tag) => rec.probe("script_has_p6_p7_query"),
            SOp::InvokeOther { extra, .. } if *extra > 0 => rec.probe("script_has_oversized_invoke_payload"),
            _ => {}
        }
    }
    let r0 = run_once(plan, &art, plan.energy);
    rec.tick(plan.energy - r0.remaining);
    rec.log_str(&format!("{:?}", r0.outcome));
    if r0.interrupts > 0 {
        rec.fault("interrupt_resume");
    }
    if r0.reentries > 0 {
        rec.fault("reentry");
    }
    if r0.rollbacks > 0 {
        rec.fault("nested_failure_rollback");
    }
    if plan.from_disk {
        rec.probe("state_loaded_lazily_from_disk");
    }
    match &r0.outcome {
        ROutcome::Trap => rec.probe("trap_outcome"),
        ROutcome::Done { code, .. } if *code < 0 => rec.probe("reject_outcome"),
        ROutcome::OutOfEnergy => {
            rec.probe("reference_out_of_energy");
            return None;
        }
        _ => {}
    }
    if plan.focus == VFocus::Host {
        if let Some(m) = &r0.kind_mismatch {
            return viol("visible-result", "host/interrupt-kind", m.clone());
        }
    }
    if !r0.origin_intact {
        return viol(
            "state-leak",
            "state-leak/transaction-origin",
            "the persistent state the transaction started from (or the base generation) changed".into(),
        );
    }

    // ---- reference model (C14 / C15; for C13 only the frame budget across an interrupt) ----
    let has_deep = plan.scripts.iter().any(|s| s.ops.iter().any(|o| matches!(o, SOp::DeepCall { .. })));
    if plan.focus == VFocus::Host || plan.focus == VFocus::Handles || plan.focus == VFocus::Energy || (plan.focus == VFocus::Resume && has_deep) {
        let params = params_for(plan.protocol);
        let mut st = MState::default();
        for (k, v) in plan.initial.iter().filter(|_| !plan.init) {
            st.uid += 1;
            let uid = st.uid;
            st.map.insert(k.clone(), (v.clone(), uid));
        }
        let mut ctx = MCtx {
            plan,
            params: vec![plan.param.clone()],
            balance: 100,
            logs: 0,
            depth: 0,
            limit_logs: params.limit_logs_and_return_values,
            max_param: params.max_parameter_size,
            queries: params.support_queries,
            sig_checks: params.support_account_signature_checks,
            inspection: params.support_contract_inspection_queries,
            sections: vec![Vec::new()],
            pages: 1,
            init: plan.init,
            unmodelled: false,
            mem: Vec::new(),
            min_energy: 0,
            rv: Vec::new(),
            limit_rv: params.limit_logs_and_return_values,
            dump_at: 0,
        };
        let _ = ctx.plan;
        let mo = model_run(plan, 0, &mut st, &mut ctx);
        let pfx = if plan.focus == VFocus::Handles { "handles" } else { "host" };
        if ctx.unmodelled {
            rec.probe("unspecified_result_used_as_handle");
        }
        if ctx.unmodelled {
            // no verdict from the model for this run (the determinism and budget oracles below still apply)
        } else if plan.focus == VFocus::Energy {
            // C02 at chain level: the scheduled charges of the host calls and memory growth that the
            // transaction demonstrably made are a lower bound of what it was charged
            if let (MOutcome::Done(..), ROutcome::Done { .. }) = (&mo, &r0.outcome) {
                let used = plan.energy - r0.remaining;
                if used < ctx.min_energy {
                    return viol(
                        "energy",
                        "energy/undercharged",
                        format!(
                            "the transaction was charged {} energy, but the scheduled charges of its host calls and memory growth add up to at least {}",
                            used, ctx.min_energy
                        ),
                    );
                }
            }
        } else if plan.focus == VFocus::Resume {
            // An execution that nests n frames, is interrupted, and nests m more must hit the
            // activation-frame limit exactly when the same nesting without an interrupt would.
            let m_trap = matches!(mo, MOutcome::Trap);
            let r_trap = matches!(r0.outcome, ROutcome::Trap);
            if m_trap != r_trap {
                return viol(
                    "resume",
                    "resume/frames-after-interrupt",
                    format!(
                        "a recursion interrupted at the bottom and resumed ends with {:?}; without the interruption the same nesting {} the limit of 1024 activation frames",
                        r0.outcome,
                        if m_trap { "exceeds" } else { "stays within" }
                    ),
                );
            }
        } else {
        match (&mo, &r0.outcome) {
            (MOutcome::Trap, ROutcome::Trap) => {
                // what the model saw charged up to the trap is still owed
                let used = plan.energy - r0.remaining;
                if plan.focus == VFocus::Host && used < ctx.min_energy {
                    return viol(
                        "energy",
                        "host/undercharged-at-trap",
                        format!(
                            "the transaction trapped after being charged {} energy, but the scheduled charges of the host calls it made up to the trap add up to at least {}",
                            used, ctx.min_energy
                        ),
                    );
                }
            }
            (MOutcome::Done(c, rvm), ROutcome::Done { code, rv }) => {
                let used = plan.energy - r0.remaining;
                if plan.focus == VFocus::Host && used < ctx.min_energy {
                    return viol(
                        "energy",
                        "host/undercharged",
                        format!(
                            "the transaction was charged {} energy, but the scheduled charges of the host calls it made add up to at least {}",
                            used, ctx.min_energy
                        ),
                    );
                }
                if plan.focus == VFocus::Host && *code >= 0 {
                    if r0.query_with_logs {
                        return viol("visible-result", "host/events-at-query", "a read-only query interrupt handed events to the chain".into());
                    }
                    if r0.sections != ctx.sections {
                        return viol(
                            "visible-result",
                            "host/events",
                            format!(
                                "events delivered to the chain (lengths, one list per transfer/call/upgrade interrupt and a final one): {:?}; the contract logged {:?}",
                                r0.sections, ctx.sections
                            ),
                        );
                    }
                }
                if c != code {
                    return viol("outcome", format!("{}/return-code", pfx), format!("entrypoint returned {} but the script returns {}", code, c));
                }
                if rv.len() != rvm.len() {
                    return viol(
                        "visible-result",
                        format!("{}/return-value-length", pfx),
                        format!("return value has {} bytes, the model expects {}", rv.len(), rvm.len()),
                    );
                }
                let n = plan.scripts[0].ops.len().min(MAX_OPS);
                let d = ctx.dump_at;
                if d + 72 * n > rvm.len() {
                    // the result dump did not fit under the P4 return-value limit: compare raw bytes
                    if plan.focus == VFocus::Host && rv != rvm {
                        return viol("visible-result", format!("{}/return-value", pfx), "return value differs from the model's (dump truncated by the size limit)".into());
                    }
                } else {
                    if plan.focus == VFocus::Host && rv[..d] != rvm[..d] {
                        return viol(
                            "visible-result",
                            format!("{}/data/write_output", pfx),
                            format!("the part of the return value written by the script ({} bytes) differs from the model's", d),
                        );
                    }
                    let (rv, rvm) = (&rv[d..], &rvm[d..]);
                    let dc = dont_care_slots(plan, rvm);
                    for i in 0..n {
                        let op = &plan.scripts[0].ops[i];
                        if dc[i] || !slot_in_focus(plan.focus, op) {
                            continue;
                        }
                        let a = u64::from_le_bytes(rv[8 * i..8 * i + 8].try_into().unwrap());
                        let b = u64::from_le_bytes(rvm[8 * i..8 * i + 8].try_into().unwrap());
                        if a != b {
                            return viol(
                                "visible-result",
                                format!("{}/result/{}", pfx, op_name(op)),
                                format!("operation #{} {:?} returned {:#x}, the host-interface model says {:#x}", i, op, a, b),
                            );
                        }
                        let ra = &rv[8 * n + 64 * i..8 * n + 64 * i + 64];
                        let rb = &rvm[8 * n + 64 * i..8 * n + 64 * i + 64];
                        if ra != rb {
                            return viol(
                                "visible-result",
                                format!("{}/data/{}", pfx, op_name(op)),
                                format!("operation #{} {:?} delivered {} to the contract, the model says {}", i, op, hx(ra), hx(rb)),
                            );
                        }
                    }
                }
                if *code >= 0 {
                    // committed state = model state, hash = reference Merkle hash
                    let want: Vec<(Vec<u8>, Vec<u8>)> = st.map.iter().map(|(k, v)| (k.clone(), v.0.clone())).collect();
                    if let Some((all, h)) = &r0.state {
                        if *all != want {
                            return viol(
                                "visible-result",
                                format!("{}/final-state", pfx),
                                format!(
                                    "state after the transaction has {} entries {:?}, the model has {} {:?}",
                                    all.len(),
                                    all.iter().take(6).map(|(k, _)| hx(k)).collect::<Vec<_>>(),
                                    want.len(),
                                    want.iter().take(6).map(|(k, _)| hx(k)).collect::<Vec<_>>()
                                ),
                            );
                        }
                        let m: triesim::model::Map = want.into_iter().collect();
                        if h[..] != reference_hash(&m) {
                            return viol("visible-result", format!("{}/final-state-hash", pfx), "hash of the state after the transaction differs from the reference hash".into());
                        }
                    }
                }
            }
            (m, r) => {
                let what = match (m, r) {
                    (MOutcome::Trap, _) => "the model says the invocation must trap (pointer/length outside memory or illegal arguments)",
                    _ => "the model says the invocation completes",
                };
                return viol(
                    "outcome",
                    format!("{}/outcome-class", pfx),
                    format!("{}; the engine ended with {:?}", what, match r {
                        ROutcome::Done { code, .. } => format!("return code {}", code),
                        other => format!("{:?}", other),
                    }),
                );
            }
        }
        }
    }

    // ---- determinism and stored artifact (all focuses gate on these) ----
    {
        let r1 = run_once(plan, &art, plan.energy);
        if r1.outcome != r0.outcome || r1.remaining != r0.remaining || r1.state != r0.state {
            return viol("determinism", "determinism/double-run", format!("two identical transactions differ: {:?} vs {:?}", r0.outcome, r1.outcome));
        }
        let mut stored = Vec::new();
        if art.output(&mut stored).is_ok() {
            match utils::parse_artifact::<ProcessedImports>(&stored) {
                Ok(b) => {
                    let owned: Artifact<ProcessedImports, CompiledFunction> = b.into();
                    let r2 = run_once(plan, &Arc::new(owned), plan.energy);
                    rec.probe("ran_stored_artifact");
                    if r2.outcome != r0.outcome || r2.remaining != r0.remaining || r2.state != r0.state {
                        return viol(
                            "artifact",
                            "artifact/stored-run-differs",
                            format!(
                                "the stored artifact behaves differently end to end: {:?} (energy left {}) vs fresh {:?} (energy left {})",
                                r2.outcome, r2.remaining, r0.outcome, r0.remaining
                            ),
                        );
                    }
                }
                Err(e) => return viol("artifact", "artifact/parse-failed", format!("a stored artifact cannot be loaded: {:#}", e)),
            }
        }
    }

    // ---- energy exhaustion injected at arbitrary points (C14: total; C02.5: remainder) ----
    if plan.focus == VFocus::Host || plan.focus == VFocus::Energy {
        let used = plan.energy - r0.remaining;
        for (b, want_rem) in [(used, 0u64), (used + 17, 17)] {
            let r = run_once(plan, &art, b);
            if r.outcome != r0.outcome || r.remaining != want_rem {
                return viol(
                    "energy",
                    "energy/remainder",
                    format!(
                        "the transaction used {} energy; with budget {} it ends with {:?} and {} left (expected the same outcome {:?} and {} left)",
                        used, b, r.outcome, r.remaining, r0.outcome, want_rem
                    ),
                );
            }
        }
        // permille cuts, and always the budget that is short by exactly one
        for c in plan.cuts.iter().chain(std::iter::once(&1000u32)) {
            if used == 0 {
                break;
            }
            let b = (used as u128 * *c as u128 / 1000) as u64;
            let r = run_once(plan, &art, b.min(used - 1));
            rec.fault("energy_cut");
            if r.outcome != ROutcome::OutOfEnergy {
                return viol(
                    "energy",
                    "energy/insufficient-budget-not-out-of-energy",
                    format!("the transaction needs {} energy; with budget {} it ended with {:?} instead of out-of-energy", used, b.min(used - 1), r.outcome),
                );
            }
            if !r.origin_intact {
                return viol("state-leak", "state-leak/after-out-of-energy", "after running out of energy the state the transaction started from changed".into());
            }
        }
    }
    None
}

pub fn shrink(plan: &VPlan) -> Vec<VPlan> {
    let mut out = Vec::new();
    for si in (0..plan.scripts.len()).rev() {
        // dropping operations shifts result indices: re-map references
        let n = plan.scripts[si].ops.len();
        for i in (0..n).rev() {
            let mut p = plan.clone();
            p.shrunk = true;
            p.scripts[si].ops.remove(i);
            for op in p.scripts[si].ops.iter_mut() {
                let fix = |h: &mut HRef| {
                    if let HRef::Res(j) = h {
                        if *j == i {
                            *h = HRef::Const(0);
                        } else if *j > i {
                            *j -= 1;
                        }
                    }
                };
                match op {
                    SOp::IterNext { it } | SOp::IterDelete { it } | SOp::IterKeySize { it } | SOp::IterKeyRead { it, .. } => fix(it),
                    SOp::EntryRead { e, .. } | SOp::EntryWrite { e, .. } | SOp::EntrySize { e } | SOp::EntryResize { e, .. } => fix(e),
                    _ => {}
                }
            }
            out.push(p);
        }
    }
    if !plan.initial.is_empty() {
        for v in simcore::driver::shrink_vec(&plan.initial) {
            let mut p = plan.clone();
            p.initial = v;
            p.shrunk = true;
            out.push(p);
        }
    }
    if plan.from_disk {
        let mut p = plan.clone();
        p.from_disk = false;
        out.push(p);
    }
    if plan.cuts.len() > 1 {
        let mut p = plan.clone();
        p.cuts.truncate(1);
        out.push(p);
    }
    out
}

// ---------------------------------------------------------------------------
// Artifacts written by the pinned version (see golden.rs)
// ---------------------------------------------------------------------------

fn compile_plan(plan: &VPlan) -> Option<Artifact<ProcessedImports, CompiledFunction>> {
    let bytes = emit_module(plan);
    utils::instantiate_with_metering::<ProcessedImports>(
        ValidationConfig::V1,
        CostConfigurationV1,
        &ConcordiumAllowedImports {
            support_upgrade: true,
            enable_debug:    false,
        },
        &bytes,
    )
    .ok()
    .map(|i| i.artifact)
}

fn state_key(r: &RunOut) -> Option<String> { r.state.as_ref().map(|(all, h)| format!("{}:{}", all.len(), hex::encode(h))) }

pub fn golden_make(plan: &VPlan) -> Option<crate::golden::VCase> {
    let art = compile_plan(plan)?;
    simcore::alloc::set_dirty_limit((1 + max_pages(plan) as usize) * 65536);
    let mut stored = Vec::new();
    art.output(&mut stored).ok()?;
    let r = run_once(plan, &Arc::new(art), plan.energy);
    if r.outcome == ROutcome::OutOfEnergy {
        return None;
    }
    Some(crate::golden::VCase {
        plan: plan.clone(),
        stored,
        outcome: format!("{:?}", r.outcome),
        remaining: r.remaining,
        state: state_key(&r),
    })
}

pub fn golden_check(case: &crate::golden::VCase, rec: &mut Recorder) -> Option<Violation> {
    let gv = |sig: &str, d: String| Some(Violation::new("old-artifact", sig, d, 0));
    simcore::alloc::set_dirty_limit((1 + max_pages(&case.plan) as usize) * 65536);
    let borrowed = match utils::parse_artifact::<ProcessedImports>(&case.stored) {
        Ok(b) => b,
        Err(e) => {
            let m = format!("{:#}", e);
            if m.contains("Unsupported artifact version") {
                rec.probe("old_artifact_version_retired");
                return None;
            }
            return gv("old-artifact/parse-failed", format!("a contract artifact stored by the pinned version can no longer be loaded: {}", m));
        }
    };
    let mut again = Vec::new();
    let _ = borrowed.output(&mut again);
    if again != case.stored {
        return gv(
            "old-artifact/reserialise-differs",
            format!("a contract artifact stored by the pinned version ({} bytes) is written out differently after loading ({} bytes)", case.stored.len(), again.len()),
        );
    }
    let owned: Artifact<ProcessedImports, CompiledFunction> = borrowed.into();
    let r = run_once(&case.plan, &Arc::new(owned), case.plan.energy);
    rec.tick(case.plan.energy - r.remaining);
    rec.probe("ran_old_artifact");
    if r.interrupts > 0 {
        rec.fault("interrupt_resume");
        rec.nontrivial = true;
    }
    let o = format!("{:?}", r.outcome);
    if o != case.outcome || r.remaining != case.remaining || state_key(&r) != case.state {
        return gv(
            "old-artifact/run-differs",
            format!(
                "a contract artifact stored by the pinned version now behaves differently: outcome {} / energy left {} / state {:?}, recorded {} / {} / {:?}",
                truncate(&o),
                r.remaining,
                state_key(&r),
                truncate(&case.outcome),
                case.remaining,
                case.state
            ),
        );
    }
    if let Some(fresh) = compile_plan(&case.plan) {
        let r = run_once(&case.plan, &Arc::new(fresh), case.plan.energy);
        let o = format!("{:?}", r.outcome);
        if o != case.outcome || r.remaining != case.remaining || state_key(&r) != case.state {
            return gv(
                "old-artifact/fresh-compile-differs",
                format!("the contract now compiles to an artifact that behaves differently from the one the pinned version stored: {} / {} vs recorded {} / {}", truncate(&o), r.remaining, truncate(&case.outcome), case.remaining),
            );
        }
    }
    None
}

fn truncate(s: &str) -> String {
    if s.len() > 120 {
        format!("{}…", &s[..120])
    } else {
        s.to_string()
    }
}
