//! A small WebAssembly module AST (serde-able, so that it can live in a replay
//! file and be minimised) and its binary emitter. No `wat`/`wasm-encoder`
//! crate is available offline. Modules are well-typed by construction; every
//! generated module must pass the repository's own validator.
use serde::{Deserialize, Serialize};

#[derive(Clone, Copy, Debug, PartialEq, Eq, Serialize, Deserialize)]
pub enum Ty {
    I32,
    I64,
}

impl Ty {
    fn byte(self) -> u8 {
        match self {
            Ty::I32 => 0x7f,
            Ty::I64 => 0x7e,
        }
    }
}

#[derive(Clone, Debug, PartialEq, Eq, Serialize, Deserialize)]
pub struct Sig {
    pub params: Vec<Ty>,
    pub result: Option<Ty>,
}

#[derive(Clone, Debug, Serialize, Deserialize)]
pub enum Expr {
    I32(i32),
    I64(i64),
    LocalGet(u32),
    LocalTee(u32, Box<Expr>),
    GlobalGet(u32),
    /// Raw opcode of a unary operator (incl. conversions, eqz, sign extension).
    Un(u8, Box<Expr>),
    /// Raw opcode of a binary operator / comparison.
    Bin(u8, Box<Expr>, Box<Expr>),
    /// Load: raw opcode, static offset, address.
    Load(u8, u32, Box<Expr>),
    /// Call of an internal function (index into `Module::funcs`).
    Call(u32, Vec<Expr>),
    /// Call of an imported host function (index into `Module::imports`).
    Host(u32, Vec<Expr>),
    /// call_indirect: signature index into `Module::sigs`, table index expression, args.
    CallIndirect(u32, Box<Expr>, Vec<Expr>),
    /// if (result ty) cond then { stmts; expr } else { stmts; expr }
    If(Ty, Box<Expr>, Vec<Stmt>, Box<Expr>, Vec<Stmt>, Box<Expr>),
    /// block (result ty) { stmts; [value; cond; br_if 0; drop]; result }
    Block(Ty, Vec<Stmt>, Option<(Box<Expr>, Box<Expr>)>, Box<Expr>),
    Select(Box<Expr>, Box<Expr>, Box<Expr>),
    MemorySize,
    MemoryGrow(Box<Expr>),
}

#[derive(Clone, Debug, Serialize, Deserialize)]
pub enum Stmt {
    LocalSet(u32, Expr),
    GlobalSet(u32, Expr),
    /// Store: raw opcode, static offset, address, value.
    Store(u8, u32, Expr, Expr),
    Drop(Expr),
    /// Call of a void internal function / host function.
    Call(u32, Vec<Expr>),
    Host(u32, Vec<Expr>),
    If(Expr, Vec<Stmt>, Vec<Stmt>),
    Block(Vec<Stmt>),
    /// br_if to an enclosing non-loop label.
    BrIf(u32, Expr),
    Br(u32),
    /// Counted loop: `local = count; loop { body; local -= 1; br_if 0 (local != 0) }`.
    Loop(u32, u32, Vec<Stmt>),
    /// Endless loop with a body of zero-cost instructions; only out-of-energy ends it.
    Spin(Vec<Stmt>),
    /// br_table over `arms.len()` arms plus default (falls out).
    Switch(Expr, Vec<Vec<Stmt>>),
    Return(Option<Expr>),
    Unreachable,
    Nop,
}

#[derive(Clone, Debug, Serialize, Deserialize)]
pub struct Func {
    pub sig:    Sig,
    /// Types of the declared locals (after the parameters).
    pub locals: Vec<Ty>,
    pub body:   Vec<Stmt>,
    /// Result expression when the signature has a result.
    pub ret:    Option<Expr>,
}

#[derive(Clone, Debug, Serialize, Deserialize)]
pub struct Import {
    pub module: String,
    pub name:   String,
    pub sig:    Sig,
}

#[derive(Clone, Debug, Serialize, Deserialize)]
pub struct Global {
    pub ty:      Ty,
    pub mutable: bool,
    pub init:    i64,
}

#[derive(Clone, Debug, Serialize, Deserialize)]
pub struct Data {
    pub offset: u32,
    #[serde(with = "simcore::hexser::bytes")]
    pub bytes:  Vec<u8>,
}

/// A table entry: an internal function (index into `Module::funcs`) or an imported host function.
#[derive(Clone, Copy, Debug, PartialEq, Eq, Serialize, Deserialize)]
pub enum TRef {
    Func(u32),
    Host(u32),
}

#[derive(Clone, Debug, Serialize, Deserialize)]
pub struct Module {
    /// Extra signatures used by call_indirect (function signatures are added automatically).
    pub sigs:    Vec<Sig>,
    pub imports: Vec<Import>,
    pub funcs:   Vec<Func>,
    /// (export name, function index into `funcs`)
    pub exports: Vec<(String, u32)>,
    /// initial / maximum pages
    pub memory:  Option<(u32, Option<u32>)>,
    pub globals: Vec<Global>,
    /// Table contents: `None` = uninitialised slot.
    pub table:   Vec<Option<TRef>>,
    pub data:    Vec<Data>,
    /// When set, function 0 stores every global to memory at this address before returning.
    pub epilogue_addr: Option<u32>,
}

fn leb_u(mut v: u64, out: &mut Vec<u8>) {
    loop {
        let b = (v & 0x7f) as u8;
        v >>= 7;
        if v == 0 {
            out.push(b);
            break;
        }
        out.push(b | 0x80);
    }
}

fn leb_i(mut v: i64, out: &mut Vec<u8>) {
    loop {
        let b = (v & 0x7f) as u8;
        let sign = b & 0x40 != 0;
        v >>= 7;
        if (v == 0 && !sign) || (v == -1 && sign) {
            out.push(b);
            break;
        }
        out.push(b | 0x80);
    }
}

fn name(s: &str, out: &mut Vec<u8>) {
    leb_u(s.len() as u64, out);
    out.extend_from_slice(s.as_bytes());
}

fn section(id: u8, body: Vec<u8>, out: &mut Vec<u8>) {
    out.push(id);
    leb_u(body.len() as u64, out);
    out.extend(body);
}

struct Emitter<'a> {
    m:        &'a Module,
    sigs:     Vec<Sig>,
    nimports: u32,
}

impl Emitter<'_> {
    fn sig_index(&mut self, s: &Sig) -> u32 {
        if let Some(i) = self.sigs.iter().position(|x| x == s) {
            i as u32
        } else {
            self.sigs.push(s.clone());
            (self.sigs.len() - 1) as u32
        }
    }

    fn expr(&self, e: &Expr, o: &mut Vec<u8>) {
        match e {
            Expr::I32(v) => {
                o.push(0x41);
                leb_i(*v as i64, o);
            }
            Expr::I64(v) => {
                o.push(0x42);
                leb_i(*v, o);
            }
            Expr::LocalGet(i) => {
                o.push(0x20);
                leb_u(*i as u64, o);
            }
            Expr::LocalTee(i, e) => {
                self.expr(e, o);
                o.push(0x22);
                leb_u(*i as u64, o);
            }
            Expr::GlobalGet(i) => {
                o.push(0x23);
                leb_u(*i as u64, o);
            }
            Expr::Un(op, a) => {
                self.expr(a, o);
                o.push(*op);
            }
            Expr::Bin(op, a, b) => {
                self.expr(a, o);
                self.expr(b, o);
                o.push(*op);
            }
            Expr::Load(op, off, a) => {
                self.expr(a, o);
                o.push(*op);
                leb_u(0, o); // alignment
                leb_u(*off as u64, o);
            }
            Expr::Call(f, args) => {
                for a in args {
                    self.expr(a, o);
                }
                o.push(0x10);
                leb_u((self.nimports + *f) as u64, o);
            }
            Expr::Host(f, args) => {
                for a in args {
                    self.expr(a, o);
                }
                o.push(0x10);
                leb_u(*f as u64, o);
            }
            Expr::CallIndirect(s, idx, args) => {
                for a in args {
                    self.expr(a, o);
                }
                self.expr(idx, o);
                o.push(0x11);
                leb_u(*s as u64, o);
                o.push(0x00);
            }
            Expr::If(ty, c, ts, te, es, ee) => {
                self.expr(c, o);
                o.push(0x04);
                o.push(ty.byte());
                self.stmts(ts, o);
                self.expr(te, o);
                o.push(0x05);
                self.stmts(es, o);
                self.expr(ee, o);
                o.push(0x0b);
            }
            Expr::Block(ty, body, early, res) => {
                o.push(0x02);
                o.push(ty.byte());
                self.stmts(body, o);
                if let Some((v, c)) = early {
                    self.expr(v, o);
                    self.expr(c, o);
                    o.push(0x0d);
                    leb_u(0, o);
                    o.push(0x1a);
                }
                self.expr(res, o);
                o.push(0x0b);
            }
            Expr::Select(a, b, c) => {
                self.expr(a, o);
                self.expr(b, o);
                self.expr(c, o);
                o.push(0x1b);
            }
            Expr::MemorySize => {
                o.push(0x3f);
                o.push(0x00);
            }
            Expr::MemoryGrow(e) => {
                self.expr(e, o);
                o.push(0x40);
                o.push(0x00);
            }
        }
    }

    fn stmts(&self, ss: &[Stmt], o: &mut Vec<u8>) {
        for s in ss {
            self.stmt(s, o);
        }
    }

    fn stmt(&self, s: &Stmt, o: &mut Vec<u8>) {
        match s {
            Stmt::LocalSet(i, e) => {
                self.expr(e, o);
                o.push(0x21);
                leb_u(*i as u64, o);
            }
            Stmt::GlobalSet(i, e) => {
                self.expr(e, o);
                o.push(0x24);
                leb_u(*i as u64, o);
            }
            Stmt::Store(op, off, a, v) => {
                self.expr(a, o);
                self.expr(v, o);
                o.push(*op);
                leb_u(0, o);
                leb_u(*off as u64, o);
            }
            Stmt::Drop(e) => {
                self.expr(e, o);
                o.push(0x1a);
            }
            Stmt::Call(f, args) => {
                for a in args {
                    self.expr(a, o);
                }
                o.push(0x10);
                leb_u((self.nimports + *f) as u64, o);
            }
            Stmt::Host(f, args) => {
                for a in args {
                    self.expr(a, o);
                }
                o.push(0x10);
                leb_u(*f as u64, o);
            }
            Stmt::If(c, t, e) => {
                self.expr(c, o);
                o.push(0x04);
                o.push(0x40);
                self.stmts(t, o);
                if !e.is_empty() {
                    o.push(0x05);
                    self.stmts(e, o);
                }
                o.push(0x0b);
            }
            Stmt::Block(b) => {
                o.push(0x02);
                o.push(0x40);
                self.stmts(b, o);
                o.push(0x0b);
            }
            Stmt::BrIf(d, c) => {
                self.expr(c, o);
                o.push(0x0d);
                leb_u(*d as u64, o);
            }
            Stmt::Br(d) => {
                o.push(0x0c);
                leb_u(*d as u64, o);
            }
            Stmt::Loop(local, count, body) => {
                o.push(0x41);
                leb_i(*count as i64, o);
                o.push(0x21);
                leb_u(*local as u64, o);
                o.push(0x03);
                o.push(0x40);
                self.stmts(body, o);
                o.push(0x20);
                leb_u(*local as u64, o);
                o.push(0x41);
                leb_i(1, o);
                o.push(0x6b); // i32.sub
                o.push(0x22);
                leb_u(*local as u64, o);
                o.push(0x0d);
                leb_u(0, o);
                o.push(0x0b);
            }
            Stmt::Spin(body) => {
                o.push(0x03);
                o.push(0x40);
                self.stmts(body, o);
                o.push(0x0c);
                leb_u(0, o);
                o.push(0x0b);
            }
            Stmt::Switch(idx, arms) => {
                // block $out { block $a(n-1) { … block $a0 { idx; br_table 0 1 … n-1 n(default) } arm0; br $out } … }
                let n = arms.len();
                o.push(0x02);
                o.push(0x40); // $out
                for _ in 0..n {
                    o.push(0x02);
                    o.push(0x40);
                }
                self.expr(idx, o);
                o.push(0x0e);
                leb_u(n as u64, o);
                for i in 0..n {
                    leb_u(i as u64, o);
                }
                leb_u(n as u64, o); // default: $out
                for (i, arm) in arms.iter().enumerate() {
                    o.push(0x0b); // end of block $a_i
                    self.stmts(arm, o);
                    // jump to $out: remaining enclosing arm blocks = n-1-i
                    o.push(0x0c);
                    leb_u((n - 1 - i) as u64, o);
                }
                o.push(0x0b);
            }
            Stmt::Return(e) => {
                if let Some(e) = e {
                    self.expr(e, o);
                }
                o.push(0x0f);
            }
            Stmt::Unreachable => o.push(0x00),
            Stmt::Nop => o.push(0x01),
        }
    }
}

pub fn emit(m: &Module) -> Vec<u8> {
    let mut em = Emitter {
        m,
        sigs: m.sigs.clone(),
        nimports: m.imports.len() as u32,
    };
    let import_sigs: Vec<u32> = m.imports.iter().map(|i| em.sig_index(&i.sig)).collect();
    let func_sigs: Vec<u32> = m.funcs.iter().map(|f| em.sig_index(&f.sig)).collect();
    let mut out = vec![0x00, 0x61, 0x73, 0x6d, 0x01, 0x00, 0x00, 0x00];
    // type section
    {
        let mut b = Vec::new();
        leb_u(em.sigs.len() as u64, &mut b);
        for s in &em.sigs {
            b.push(0x60);
            leb_u(s.params.len() as u64, &mut b);
            for p in &s.params {
                b.push(p.byte());
            }
            match s.result {
                Some(t) => {
                    b.push(1);
                    b.push(t.byte());
                }
                None => b.push(0),
            }
        }
        section(1, b, &mut out);
    }
    if !m.imports.is_empty() {
        let mut b = Vec::new();
        leb_u(m.imports.len() as u64, &mut b);
        for (i, imp) in m.imports.iter().enumerate() {
            name(&imp.module, &mut b);
            name(&imp.name, &mut b);
            b.push(0x00);
            leb_u(import_sigs[i] as u64, &mut b);
        }
        section(2, b, &mut out);
    }
    {
        let mut b = Vec::new();
        leb_u(m.funcs.len() as u64, &mut b);
        for s in &func_sigs {
            leb_u(*s as u64, &mut b);
        }
        section(3, b, &mut out);
    }
    if !m.table.is_empty() {
        let mut b = Vec::new();
        leb_u(1, &mut b);
        b.push(0x70);
        b.push(0x01);
        leb_u(m.table.len() as u64, &mut b);
        leb_u(m.table.len() as u64, &mut b);
        section(4, b, &mut out);
    }
    if let Some((init, max)) = m.memory {
        let mut b = Vec::new();
        leb_u(1, &mut b);
        match max {
            Some(mx) => {
                b.push(0x01);
                leb_u(init as u64, &mut b);
                leb_u(mx as u64, &mut b);
            }
            None => {
                b.push(0x00);
                leb_u(init as u64, &mut b);
            }
        }
        section(5, b, &mut out);
    }
    if !m.globals.is_empty() {
        let mut b = Vec::new();
        leb_u(m.globals.len() as u64, &mut b);
        for g in &m.globals {
            b.push(g.ty.byte());
            b.push(g.mutable as u8);
            match g.ty {
                Ty::I32 => {
                    b.push(0x41);
                    leb_i(g.init as i32 as i64, &mut b);
                }
                Ty::I64 => {
                    b.push(0x42);
                    leb_i(g.init, &mut b);
                }
            }
            b.push(0x0b);
        }
        section(6, b, &mut out);
    }
    if !m.exports.is_empty() {
        let mut b = Vec::new();
        leb_u(m.exports.len() as u64, &mut b);
        for (n, f) in &m.exports {
            name(n, &mut b);
            b.push(0x00);
            leb_u((em.nimports + *f) as u64, &mut b);
        }
        section(7, b, &mut out);
    }
    if m.table.iter().any(|x| x.is_some()) {
        // one element segment per maximal run of initialised slots
        let mut segs: Vec<(u32, Vec<u32>)> = Vec::new();
        let mut i = 0;
        while i < m.table.len() {
            if m.table[i].is_some() {
                let st = i;
                let mut v = Vec::new();
                while i < m.table.len() && m.table[i].is_some() {
                    v.push(match m.table[i].unwrap() {
                        TRef::Func(f) => em.nimports + f,
                        TRef::Host(h) => h,
                    });
                    i += 1;
                }
                segs.push((st as u32, v));
            } else {
                i += 1;
            }
        }
        let mut b = Vec::new();
        leb_u(segs.len() as u64, &mut b);
        for (off, fs) in segs {
            leb_u(0, &mut b);
            b.push(0x41);
            leb_i(off as i64, &mut b);
            b.push(0x0b);
            leb_u(fs.len() as u64, &mut b);
            for f in fs {
                leb_u(f as u64, &mut b);
            }
        }
        section(9, b, &mut out);
    }
    {
        let mut b = Vec::new();
        leb_u(m.funcs.len() as u64, &mut b);
        for (fi, f) in m.funcs.iter().enumerate() {
            let mut body = Vec::new();
            // locals, one entry each (simple), plus the epilogue temporary for function 0
            let mut locals = f.locals.clone();
            let epi_local = (f.sig.params.len() + locals.len()) as u32;
            let epilogue = fi == 0 && m.epilogue_addr.is_some() && !m.globals.is_empty();
            if epilogue {
                if let Some(t) = f.sig.result {
                    locals.push(t);
                }
            }
            leb_u(locals.len() as u64, &mut body);
            for l in &locals {
                leb_u(1, &mut body);
                body.push(l.byte());
            }
            em.stmts(&f.body, &mut body);
            if let Some(r) = &f.ret {
                em.expr(r, &mut body);
            }
            if epilogue {
                if f.sig.result.is_some() {
                    body.push(0x21);
                    leb_u(epi_local as u64, &mut body);
                }
                let base = m.epilogue_addr.unwrap();
                for (gi, g) in m.globals.iter().enumerate() {
                    body.push(0x41);
                    leb_i((base + 8 * gi as u32) as i64, &mut body);
                    body.push(0x23);
                    leb_u(gi as u64, &mut body);
                    body.push(match g.ty {
                        Ty::I32 => 0x36,
                        Ty::I64 => 0x37,
                    });
                    leb_u(0, &mut body);
                    leb_u(0, &mut body);
                }
                if f.sig.result.is_some() {
                    body.push(0x20);
                    leb_u(epi_local as u64, &mut body);
                }
            }
            body.push(0x0b);
            leb_u(body.len() as u64, &mut b);
            b.extend(body);
        }
        section(10, b, &mut out);
    }
    if !m.data.is_empty() {
        let mut b = Vec::new();
        leb_u(m.data.len() as u64, &mut b);
        for d in &m.data {
            leb_u(0, &mut b);
            b.push(0x41);
            leb_i(d.offset as i64, &mut b);
            b.push(0x0b);
            leb_u(d.bytes.len() as u64, &mut b);
            b.extend_from_slice(&d.bytes);
        }
        section(11, b, &mut out);
    }
    let _ = em.m;
    out
}
