//! A small WebAssembly module AST (serde-able, so that it can live in a replay
//! file and be minimised) and its binary emitter. No `wat`/`wasm-encoder`
//! crate is available offline. Modules are well-typed by construction; every
//! generated module must pass the repository's own validator.
use serde::{Deserialize, Serialize};

#[derive(Clone, Copy, Debug, PartialEq, Eq, Serialize, Deserialize)]
pub enum Ty {
    I32,
    I64,
}

impl Ty {
    fn byte(self) -> u8 {
        match self {
            Ty::I32 => 0x7f,
            Ty::I64 => 0x7e,
        }
    }
}

#[derive(Clone, Debug, PartialEq, Eq, Serialize, Deserialize)]
pub struct Sig {
    pub params: Vec<Ty>,
    pub result: Option<Ty>,
}

#[derive(Clone, Debug, Serialize, Deserialize)]
pub enum Expr {
    I32(i32),
    I64(i64),
    LocalGet(u32),
    LocalTee(u32, Box<Expr>),
    GlobalGet(u32),
    /// Raw opcode of a unary operator (incl. conversions, eqz, sign extension).
    Un(u8, Box<Expr>),
    /// Raw opcode of a binary operator / comparison.
    Bin(u8, Box<Expr>, Box<Expr>),
    /// Load: raw opcode, static offset, address.
    Load(u8, u32, Box<Expr>),
    /// Call of an internal function (index into `Module::funcs`).
    Call(u32, Vec<Expr>),
    /// Call of an imported host function (index into `Module::imports`).
    Host(u32, Vec<Expr>),
    /// call_indirect: signature index into `Module::sigs`, table index expression, args.
    CallIndirect(u32, Box<Expr>, Vec<Expr>),
    /// if (result ty) cond then { stmts; expr } else { stmts; expr }
    If(Ty, Box<Expr>, Vec<Stmt>, Box<Expr>, Vec<Stmt>, Box<Expr>),
    /// block (result ty) { stmts; [value; cond; br_if 0; drop]; result }
    Block(Ty, Vec<Stmt>, Option<(Box<Expr>, Box<Expr>)>, Box<Expr>),
    Select(Box<Expr>, Box<Expr>, Box<Expr>),
    MemorySize,
    MemoryGrow(Box<Expr>),
}

#[derive(Clone, Debug, Serialize, Deserialize)]
pub enum Stmt {
    LocalSet(u32, Expr),
    GlobalSet(u32, Expr),
    /// Store: raw opcode, static offset, address, value.
    Store(u8, u32, Expr, Expr),
    Drop(Expr),
    /// Call of a void internal function / host function.
    Call(u32, Vec<Expr>),
    Host(u32, Vec<Expr>),
    If(Expr, Vec<Stmt>, Vec<Stmt>),
    Block(Vec<Stmt>),
    /// br_if to an enclosing non-loop label.
    BrIf(u32, Expr),
    Br(u32),
    /// Counted loop: `local = count; loop { body; local -= 1; br_if 0 (local != 0) }`.
    Loop(u32, u32, Vec<Stmt>),
    /// Endless loop with a body of zero-cost instructions; only out-of-energy ends it.
    Spin(Vec<Stmt>),
    /// br_table over `arms.len()` arms plus default (falls out).
    Switch(Expr, Vec<Vec<Stmt>>),
    Return(Option<Expr>),
    Unreachable,
    Nop,
}

#[derive(Clone, Debug, Serialize, Deserialize)]
pub struct Func {
    pub sig:    Sig,
    /// Types of the declared locals (after the parameters).
    pub locals: Vec<Ty>,
    pub body:   Vec<Stmt>,
    /// Result expression when the signature has a result.
    pub ret:    Option<Expr>,
}

#[derive(Clone, Debug, Serialize, Deserialize)]
pub struct Import {
    pub module: String,
    pub name:   String,
    pub sig:    Sig,
}

#[derive(Clone, Debug, Serialize, Deserialize)]
pub struct Global {
    pub ty:      Ty,
    pub mutable: bool,
    pub init:    i64,
}

#[derive(Clone, Debug, Serialize, Deserialize)]
pub struct Data {
    pub offset: u32,
    #[serde(with = "simcore::hexser::bytes")]
    pub bytes:  Vec<u8>,
}

/// A table entry: an internal function (index into `Module::funcs`) or an imported host function.
#[derive(Clone, Copy, Debug, PartialEq, Eq, Serialize, Deserialize)]
pub enum TRef {
    Func(u32),
    Host(u32),
}

#[derive(Clone, Debug, Serialize, Deserialize)]
pub struct Module {
    /// Extra signatures used by call_indirect (function signatures are added automatically).
    pub sigs:    Vec<Sig>,
    pub imports: Vec<Import>,
    pub funcs:   Vec<Func>,
    /// (export name, function index into `funcs`)
    pub exports: Vec<(String, u32)>,
    /// initial / maximum pages
    pub memory:  Option<(u32, Option<u32>)>,
    pub globals: Vec<Global>,
    /// Table contents: `None` = uninitialised slot.
    pub table:   Vec<Option<TRef>>,
    pub data:    Vec<Data>,
    /// When set, function 0 stores every global to memory at this address before returning.
    pub epilogue_addr: Option<u32>,
}

fn leb_u(mut v: u64, out: &mut Vec<u8>) {
    loop {
        let b = (v & 0x7f) as u8;
        v >>= 7;
        if v == 0 {
            out.push(b);
            break;
        }
        out.push(b | 0x80);
    }
}

fn leb_i(mut v: i64, out: &mut Vec<u8>) {
    loop {
        let b = (v & 0x7f) as u8;
        let sign = b & 0x40 != 0;
        v >>= 7;
        if (v == 0 && !sign) || (v == -1 && sign) {
            out.push(b);
            break;
        }
        out.push(b | 0x80);
    }
}

fn name(s: &str, out: &mut Vec<u8>) {
    leb_u(s.len() as u64, out);
    out.extend_from_slice(s.as_bytes());
}

fn section(id: u8, body: Vec<u8>, out: &mut Vec<u8>) {
    out.push(id);
    leb_u(body.len() as u64, out);
    out.extend(body);
}

struct Emitter<'a> {
    m:        &'a Module,
    sigs:     Vec<Sig>,
    nimports: u32,
    /// Shadow counting (`emit_counted`): 1 = cost schedule V0, 2 = V1. Every instruction is
    /// preceded by `i64.const <its scheduled cost>; call $count`.
    count:    Option<u8>,
    /// Arity (0/1) of the enclosing labels, outermost (the function) first.
    labels:   std::cell::RefCell<Vec<u64>>,
    /// Index of the i32 scratch local of the function being emitted (counting mode).
    scratch:  std::cell::Cell<u32>,
}

/// Frozen copy of the protocol cost schedule (metering_transformation.rs, cost_v0 / cost_v1) for the
/// instructions the emitter produces whose cost does not depend on context.
fn static_cost(op: u8, cfg: u8) -> u64 {
    let v0 = cfg == 1;
    let (unop, binop, mul) = if v0 { (3, 4, 5) } else { (1, 1, 2) };
    match op {
        0x00 => 0,                                 // unreachable
        0x01 => 1,                                 // nop
        0x02 | 0x03 | 0x05 | 0x0b => 0,            // block, loop, else, end
        0x04 => if v0 { 10 } else { 4 },           // if = TEST + JUMP
        0x0d => if v0 { 10 } else { 4 },           // br_if (static part)
        0x1a => if v0 { 2 } else { 0 },            // drop
        0x1b => if v0 { 3 } else { 2 },            // select
        0x20 | 0x21 | 0x22 => if v0 { 3 } else { 0 },
        0x23 | 0x24 => if v0 { 3 } else { 1 },
        0x28..=0x35 => if v0 { 4 } else { 1 },     // loads
        0x36 => if v0 { 8 } else { 2 },            // i32.store
        0x37 => if v0 { 10 } else { 2 },           // i64.store
        0x3a => if v0 { 5 } else { 2 },            // i32.store8
        0x3b => if v0 { 8 } else { 2 },            // i32.store16
        0x3c => if v0 { 7 } else { 2 },            // i64.store8
        0x3d => if v0 { 9 } else { 2 },            // i64.store16
        0x3e => if v0 { 10 } else { 2 },           // i64.store32
        0x3f => if v0 { 4 } else { 1 },            // memory.size
        0x40 => 10,                                // memory.grow (constant part)
        0x41 | 0x42 => if v0 { 2 } else { 0 },     // const
        0x45 | 0x50 => unop,                       // eqz
        0x46..=0x4f | 0x51..=0x5a => binop,        // comparisons
        0x67..=0x69 | 0x79..=0x7b => unop,         // clz ctz popcnt
        0x6a | 0x6b | 0x7c | 0x7d => binop,        // add sub
        0x6c..=0x70 | 0x7e..=0x82 => mul,          // mul div rem
        0x71..=0x78 | 0x83..=0x8a => binop,        // and or xor shl shr rot
        0xa7 | 0xac | 0xad => unop,                // wrap / extend
        0xc0..=0xc4 => unop,                       // sign extension
        _ => panic!("static_cost: opcode {:#x} is not produced by the emitter", op),
    }
}

impl Emitter<'_> {
    fn sig_index(&mut self, s: &Sig) -> u32 {
        if let Some(i) = self.sigs.iter().position(|x| x == s) {
            i as u32
        } else {
            self.sigs.push(s.clone());
            (self.sigs.len() - 1) as u32
        }
    }

    /// counting mode: `i64.const c; call $count`
    fn bump(&self, c: u64, o: &mut Vec<u8>) {
        if self.count.is_some() && c > 0 {
            o.push(0x42);
            leb_i(c as i64, o);
            o.push(0x10);
            leb_u((self.nimports - 1) as u64, o);
        }
    }

    /// Emit an opcode whose cost is context free.
    fn op(&self, b: u8, o: &mut Vec<u8>) {
        if let Some(cfg) = self.count {
            self.bump(static_cost(b, cfg), o);
        }
        o.push(b);
    }

    fn push_label(&self, arity: u64) { self.labels.borrow_mut().push(arity) }

    fn pop_label(&self) { self.labels.borrow_mut().pop(); }

    fn label_arity(&self, depth: u32) -> u64 {
        let l = self.labels.borrow();
        l[l.len() - 1 - depth as usize]
    }

    /// Cost of a taken jump to a label of the given arity.
    fn branch_cost(&self, arity: u64) -> u64 {
        match self.count {
            Some(1) => 8 + arity,
            _ => 2,
        }
    }

    fn br(&self, d: u32, o: &mut Vec<u8>) {
        self.bump(self.branch_cost(self.label_arity(d)), o);
        o.push(0x0c);
        leb_u(d as u64, o);
    }

    /// `br_if d` with the condition on the stack: static cost, plus the jump cost when taken.
    fn br_if(&self, d: u32, o: &mut Vec<u8>) {
        if let Some(cfg) = self.count {
            self.bump(static_cost(0x0d, cfg), o);
            let t = self.scratch.get();
            o.push(0x22);
            leb_u(t as u64, o); // local.tee scratch
            o.push(0x20);
            leb_u(t as u64, o); // local.get scratch
            o.push(0x45);
            o.push(0x45); // i32.eqz; i32.eqz  -> 0/1
            o.push(0xad); // i64.extend_i32_u
            o.push(0x42);
            leb_i(self.branch_cost(self.label_arity(d)) as i64, o);
            o.push(0x7e); // i64.mul
            o.push(0x10);
            leb_u((self.nimports - 1) as u64, o);
        }
        o.push(0x0d);
        leb_u(d as u64, o);
    }

    fn call_cost(&self, sig: &Sig, indirect: bool) -> u64 {
        let (a, r) = (sig.params.len() as u64, sig.result.is_some() as u64);
        match self.count {
            Some(1) => 26 + a + r + if indirect { 2 + a + r } else { 0 },
            _ => 6 + a + r + if indirect { 2 + (a + r) / 10 } else { 0 },
        }
    }

    fn expr(&self, e: &Expr, o: &mut Vec<u8>) {
        match e {
            Expr::I32(v) => {
                self.op(0x41, o);
                leb_i(*v as i64, o);
            }
            Expr::I64(v) => {
                self.op(0x42, o);
                leb_i(*v, o);
            }
            Expr::LocalGet(i) => {
                self.op(0x20, o);
                leb_u(*i as u64, o);
            }
            Expr::LocalTee(i, e) => {
                self.expr(e, o);
                self.op(0x22, o);
                leb_u(*i as u64, o);
            }
            Expr::GlobalGet(i) => {
                self.op(0x23, o);
                leb_u(*i as u64, o);
            }
            Expr::Un(op, a) => {
                self.expr(a, o);
                self.op(*op, o);
            }
            Expr::Bin(op, a, b) => {
                self.expr(a, o);
                self.expr(b, o);
                self.op(*op, o);
            }
            Expr::Load(op, off, a) => {
                self.expr(a, o);
                self.op(*op, o);
                leb_u(0, o); // alignment
                leb_u(*off as u64, o);
            }
            Expr::Call(f, args) => {
                for a in args {
                    self.expr(a, o);
                }
                self.bump(self.call_cost(&self.m.funcs[*f as usize].sig, false), o);
                o.push(0x10);
                leb_u((self.nimports + *f) as u64, o);
            }
            Expr::Host(f, args) => {
                for a in args {
                    self.expr(a, o);
                }
                self.bump(self.call_cost(&self.m.imports[*f as usize].sig, false), o);
                o.push(0x10);
                leb_u(*f as u64, o);
            }
            Expr::CallIndirect(s, idx, args) => {
                for a in args {
                    self.expr(a, o);
                }
                self.expr(idx, o);
                self.bump(self.call_cost(&self.sigs[*s as usize], true), o);
                o.push(0x11);
                leb_u(*s as u64, o);
                o.push(0x00);
            }
            Expr::If(ty, c, ts, te, es, ee) => {
                self.expr(c, o);
                self.op(0x04, o);
                o.push(ty.byte());
                self.push_label(1);
                self.stmts(ts, o);
                self.expr(te, o);
                o.push(0x05);
                self.stmts(es, o);
                self.expr(ee, o);
                o.push(0x0b);
                self.pop_label();
            }
            Expr::Block(ty, body, early, res) => {
                o.push(0x02);
                o.push(ty.byte());
                self.push_label(1);
                self.stmts(body, o);
                if let Some((v, c)) = early {
                    self.expr(v, o);
                    self.expr(c, o);
                    self.br_if(0, o);
                    self.op(0x1a, o);
                }
                self.expr(res, o);
                o.push(0x0b);
                self.pop_label();
            }
            Expr::Select(a, b, c) => {
                self.expr(a, o);
                self.expr(b, o);
                self.expr(c, o);
                self.op(0x1b, o);
            }
            Expr::MemorySize => {
                self.op(0x3f, o);
                o.push(0x00);
            }
            Expr::MemoryGrow(e) => {
                self.expr(e, o);
                self.op(0x40, o);
                o.push(0x00);
            }
        }
    }

    fn stmts(&self, ss: &[Stmt], o: &mut Vec<u8>) {
        for s in ss {
            self.stmt(s, o);
        }
    }

    fn stmt(&self, s: &Stmt, o: &mut Vec<u8>) {
        match s {
            Stmt::LocalSet(i, e) => {
                self.expr(e, o);
                self.op(0x21, o);
                leb_u(*i as u64, o);
            }
            Stmt::GlobalSet(i, e) => {
                self.expr(e, o);
                self.op(0x24, o);
                leb_u(*i as u64, o);
            }
            Stmt::Store(op, off, a, v) => {
                self.expr(a, o);
                self.expr(v, o);
                self.op(*op, o);
                leb_u(0, o);
                leb_u(*off as u64, o);
            }
            Stmt::Drop(e) => {
                self.expr(e, o);
                self.op(0x1a, o);
            }
            Stmt::Call(f, args) => {
                for a in args {
                    self.expr(a, o);
                }
                self.bump(self.call_cost(&self.m.funcs[*f as usize].sig, false), o);
                o.push(0x10);
                leb_u((self.nimports + *f) as u64, o);
            }
            Stmt::Host(f, args) => {
                for a in args {
                    self.expr(a, o);
                }
                self.bump(self.call_cost(&self.m.imports[*f as usize].sig, false), o);
                o.push(0x10);
                leb_u(*f as u64, o);
            }
            Stmt::If(c, t, e) => {
                self.expr(c, o);
                self.op(0x04, o);
                o.push(0x40);
                self.push_label(0);
                self.stmts(t, o);
                if !e.is_empty() {
                    o.push(0x05);
                    self.stmts(e, o);
                }
                o.push(0x0b);
                self.pop_label();
            }
            Stmt::Block(b) => {
                o.push(0x02);
                o.push(0x40);
                self.push_label(0);
                self.stmts(b, o);
                o.push(0x0b);
                self.pop_label();
            }
            Stmt::BrIf(d, c) => {
                self.expr(c, o);
                self.br_if(*d, o);
            }
            Stmt::Br(d) => self.br(*d, o),
            Stmt::Loop(local, count, body) => {
                self.op(0x41, o);
                leb_i(*count as i64, o);
                self.op(0x21, o);
                leb_u(*local as u64, o);
                o.push(0x03);
                o.push(0x40);
                self.push_label(0);
                self.stmts(body, o);
                self.op(0x20, o);
                leb_u(*local as u64, o);
                self.op(0x41, o);
                leb_i(1, o);
                self.op(0x6b, o); // i32.sub
                self.op(0x22, o);
                leb_u(*local as u64, o);
                self.br_if(0, o);
                o.push(0x0b);
                self.pop_label();
            }
            Stmt::Spin(body) => {
                o.push(0x03);
                o.push(0x40);
                self.push_label(0);
                self.stmts(body, o);
                self.br(0, o);
                o.push(0x0b);
                self.pop_label();
            }
            Stmt::Switch(idx, arms) => {
                // block $out { block $a(n-1) { … block $a0 { idx; br_table 0 1 … n-1 n(default) } arm0; br $out } … }
                let n = arms.len();
                o.push(0x02);
                o.push(0x40); // $out
                self.push_label(0);
                for _ in 0..n {
                    o.push(0x02);
                    o.push(0x40);
                    self.push_label(0);
                }
                self.expr(idx, o);
                // br_table: bounds check plus a jump to a label of the default's arity (0)
                self.bump(
                    match self.count {
                        Some(1) => 2 + 8,
                        _ => 2 + 3 + 2,
                    },
                    o,
                );
                o.push(0x0e);
                leb_u(n as u64, o);
                for i in 0..n {
                    leb_u(i as u64, o);
                }
                leb_u(n as u64, o); // default: $out
                for (i, arm) in arms.iter().enumerate() {
                    o.push(0x0b); // end of block $a_i
                    self.pop_label();
                    self.stmts(arm, o);
                    // jump to $out: remaining enclosing arm blocks = n-1-i
                    self.br((n - 1 - i) as u32, o);
                }
                o.push(0x0b);
                self.pop_label();
            }
            Stmt::Return(e) => {
                if let Some(e) = e {
                    self.expr(e, o);
                }
                // priced like a jump to the outermost label
                let arity = self.labels.borrow()[0];
                self.bump(self.branch_cost(arity), o);
                o.push(0x0f);
            }
            Stmt::Unreachable => o.push(0x00),
            Stmt::Nop => self.op(0x01, o),
        }
    }
}

pub fn emit(m: &Module) -> Vec<u8> { emit_with(m, None) }

/// The same module with shadow counting: an extra import `env.count : i64 -> ()` (the last import)
/// receives, before every instruction, that instruction's cost under schedule `cfg` (1 = V0, 2 = V1),
/// at every function entry the cost of its declared locals, and at every `br_if` the jump cost when
/// (and only when) the branch is taken. Apart from the counting calls and one scratch local per
/// function the program is the same, so an unmetered run of it follows the same path as a metered
/// run of the original and the host ends up with "the cost schedule summed over the executed
/// instructions".
pub fn emit_counted(m: &Module, cfg: u8) -> Vec<u8> {
    let mut m2 = m.clone();
    m2.imports.push(Import {
        module: "env".into(),
        name:   "count".into(),
        sig:    Sig {
            params: vec![Ty::I64],
            result: None,
        },
    });
    emit_with(&m2, Some(cfg))
}

fn emit_with(m: &Module, count: Option<u8>) -> Vec<u8> {
    let mut em = Emitter {
        m,
        sigs: m.sigs.clone(),
        nimports: m.imports.len() as u32,
        count,
        labels: std::cell::RefCell::new(Vec::new()),
        scratch: std::cell::Cell::new(0),
    };
    let import_sigs: Vec<u32> = m.imports.iter().map(|i| em.sig_index(&i.sig)).collect();
    let func_sigs: Vec<u32> = m.funcs.iter().map(|f| em.sig_index(&f.sig)).collect();
    let mut out = vec![0x00, 0x61, 0x73, 0x6d, 0x01, 0x00, 0x00, 0x00];
    // type section
    {
        let mut b = Vec::new();
        leb_u(em.sigs.len() as u64, &mut b);
        for s in &em.sigs {
            b.push(0x60);
            leb_u(s.params.len() as u64, &mut b);
            for p in &s.params {
                b.push(p.byte());
            }
            match s.result {
                Some(t) => {
                    b.push(1);
                    b.push(t.byte());
                }
                None => b.push(0),
            }
        }
        section(1, b, &mut out);
    }
    if !m.imports.is_empty() {
        let mut b = Vec::new();
        leb_u(m.imports.len() as u64, &mut b);
        for (i, imp) in m.imports.iter().enumerate() {
            name(&imp.module, &mut b);
            name(&imp.name, &mut b);
            b.push(0x00);
            leb_u(import_sigs[i] as u64, &mut b);
        }
        section(2, b, &mut out);
    }
    {
        let mut b = Vec::new();
        leb_u(m.funcs.len() as u64, &mut b);
        for s in &func_sigs {
            leb_u(*s as u64, &mut b);
        }
        section(3, b, &mut out);
    }
    if !m.table.is_empty() {
        let mut b = Vec::new();
        leb_u(1, &mut b);
        b.push(0x70);
        b.push(0x01);
        leb_u(m.table.len() as u64, &mut b);
        leb_u(m.table.len() as u64, &mut b);
        section(4, b, &mut out);
    }
    if let Some((init, max)) = m.memory {
        let mut b = Vec::new();
        leb_u(1, &mut b);
        match max {
            Some(mx) => {
                b.push(0x01);
                leb_u(init as u64, &mut b);
                leb_u(mx as u64, &mut b);
            }
            None => {
                b.push(0x00);
                leb_u(init as u64, &mut b);
            }
        }
        section(5, b, &mut out);
    }
    if !m.globals.is_empty() {
        let mut b = Vec::new();
        leb_u(m.globals.len() as u64, &mut b);
        for g in &m.globals {
            b.push(g.ty.byte());
            b.push(g.mutable as u8);
            match g.ty {
                Ty::I32 => {
                    b.push(0x41);
                    leb_i(g.init as i32 as i64, &mut b);
                }
                Ty::I64 => {
                    b.push(0x42);
                    leb_i(g.init, &mut b);
                }
            }
            b.push(0x0b);
        }
        section(6, b, &mut out);
    }
    if !m.exports.is_empty() {
        let mut b = Vec::new();
        leb_u(m.exports.len() as u64, &mut b);
        for (n, f) in &m.exports {
            name(n, &mut b);
            b.push(0x00);
            leb_u((em.nimports + *f) as u64, &mut b);
        }
        section(7, b, &mut out);
    }
    if m.table.iter().any(|x| x.is_some()) {
        // one element segment per maximal run of initialised slots
        let mut segs: Vec<(u32, Vec<u32>)> = Vec::new();
        let mut i = 0;
        while i < m.table.len() {
            if m.table[i].is_some() {
                let st = i;
                let mut v = Vec::new();
                while i < m.table.len() && m.table[i].is_some() {
                    v.push(match m.table[i].unwrap() {
                        TRef::Func(f) => em.nimports + f,
                        TRef::Host(h) => h,
                    });
                    i += 1;
                }
                segs.push((st as u32, v));
            } else {
                i += 1;
            }
        }
        let mut b = Vec::new();
        leb_u(segs.len() as u64, &mut b);
        for (off, fs) in segs {
            leb_u(0, &mut b);
            b.push(0x41);
            leb_i(off as i64, &mut b);
            b.push(0x0b);
            leb_u(fs.len() as u64, &mut b);
            for f in fs {
                leb_u(f as u64, &mut b);
            }
        }
        section(9, b, &mut out);
    }
    {
        let mut b = Vec::new();
        leb_u(m.funcs.len() as u64, &mut b);
        for (fi, f) in m.funcs.iter().enumerate() {
            let mut body = Vec::new();
            // locals, one entry each (simple), plus the epilogue temporary for function 0
            let mut locals = f.locals.clone();
            let epi_local = (f.sig.params.len() + locals.len()) as u32;
            let epilogue = fi == 0 && m.epilogue_addr.is_some() && !m.globals.is_empty();
            if epilogue {
                if let Some(t) = f.sig.result {
                    locals.push(t);
                }
            }
            // entry cost: the declared locals (parameters excluded), as the metered original declares them
            let entry_cost = match count {
                Some(1) => 4 * locals.len() as u64,
                _ => locals.len() as u64 / 16,
            };
            if count.is_some() {
                em.scratch.set((f.sig.params.len() + locals.len()) as u32);
                locals.push(Ty::I32);
            }
            // run-length groups of equal types
            // (every other run of length >= 2 is split into 1 + rest, so that adjacent groups of the same
            // type occur as well)
            let mut groups: Vec<(u32, Ty)> = Vec::new();
            for l in &locals {
                match groups.last_mut() {
                    Some((n, t)) if *t == *l && count.is_none() => *n += 1,
                    _ => groups.push((1, *l)),
                }
            }
            if count.is_none() {
                let mut split: Vec<(u32, Ty)> = Vec::new();
                for (gi, (n, t)) in groups.iter().enumerate() {
                    if *n >= 2 && (gi + fi) % 2 == 1 {
                        split.push((1, *t));
                        split.push((*n - 1, *t));
                    } else {
                        split.push((*n, *t));
                    }
                }
                groups = split;
            }
            leb_u(groups.len() as u64, &mut body);
            for (n, l) in &groups {
                leb_u(*n as u64, &mut body);
                body.push(l.byte());
            }
            em.labels.borrow_mut().clear();
            em.push_label(f.sig.result.is_some() as u64);
            em.bump(entry_cost, &mut body);
            em.stmts(&f.body, &mut body);
            if let Some(r) = &f.ret {
                em.expr(r, &mut body);
            }
            if epilogue {
                if f.sig.result.is_some() {
                    em.op(0x21, &mut body);
                    leb_u(epi_local as u64, &mut body);
                }
                let base = m.epilogue_addr.unwrap();
                for (gi, g) in m.globals.iter().enumerate() {
                    em.op(0x41, &mut body);
                    leb_i((base + 8 * gi as u32) as i64, &mut body);
                    em.op(0x23, &mut body);
                    leb_u(gi as u64, &mut body);
                    em.op(
                        match g.ty {
                            Ty::I32 => 0x36,
                            Ty::I64 => 0x37,
                        },
                        &mut body,
                    );
                    leb_u(0, &mut body);
                    leb_u(0, &mut body);
                }
                if f.sig.result.is_some() {
                    em.op(0x20, &mut body);
                    leb_u(epi_local as u64, &mut body);
                }
            }
            body.push(0x0b);
            leb_u(body.len() as u64, &mut b);
            b.extend(body);
        }
        section(10, b, &mut out);
    }
    if !m.data.is_empty() {
        let mut b = Vec::new();
        leb_u(m.data.len() as u64, &mut b);
        for d in &m.data {
            leb_u(0, &mut b);
            b.push(0x41);
            leb_i(d.offset as i64, &mut b);
            b.push(0x0b);
            leb_u(d.bytes.len() as u64, &mut b);
            b.extend_from_slice(&d.bytes);
        }
        section(11, b, &mut out);
    }
    let _ = em.m;
    out
}
