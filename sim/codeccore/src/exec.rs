//! Stream plans and their executor: one decode (or encode) of one subject
//! over a fault-injecting stream under the counting allocator.
use crate::subject::*;
use serde::{Deserialize, Serialize};
use simcore::{
    alloc,
    faultio::{ReadPlan, WritePlan},
    Recorder, Rng, Violation,
};

#[derive(Clone, Debug, Serialize, Deserialize, PartialEq)]
pub enum Mode {
    /// Clean stream (any chunking / EINTR): typed round trip, exact consumption, identical re-encoding.
    Clean,
    /// The stream ends or fails before the end of the encoding: decoding must fail.
    Cut,
    /// Damaged stored bytes: total, allocation-bounded, canonical if accepted.
    Damaged,
    /// Encoder writes to a writer that refuses bytes: must report the failure.
    WriterFault,
    /// A hand-crafted encoding (unusual but valid, or subtly invalid) with an expected verdict.
    Crafted,
}

#[derive(Clone, Debug, Serialize, Deserialize)]
pub struct StreamPlan {
    pub subject:    String,
    pub value_seed: u64,
    pub mode:       Mode,
    pub damage:     Vec<Damage>,
    pub read:       ReadPlan,
    pub write:      WritePlan,
}

/// Allocation oracle thresholds (frozen; the library's own pre-allocation caps
/// are 4096 elements / 4 KiB, legitimate requests stay orders of magnitude below).
pub const MAX_SINGLE_REQUEST_BASE: usize = 8 << 20;
pub const MAX_SINGLE_REQUEST_PER_INPUT_BYTE: usize = 64;
pub const MAX_PEAK_BASE: usize = 32 << 20;
pub const MAX_PEAK_PER_INPUT_BYTE: usize = 256;

pub fn generate(rng: &mut Rng, subjects: &[Subject]) -> StreamPlan {
    let s = &subjects[rng.usize_below(subjects.len())];
    let value_seed = rng.next_u64();
    let eintr = s.family != Family::ContractsCommon;
    let mode = match rng.below(20) {
        0..=1 if s.crafted.is_some() => Mode::Crafted,
        0..=5 => Mode::Clean,
        6..=8 => Mode::Cut,
        9..=17 => Mode::Damaged,
        _ => {
            if s.encode_faulty.is_some() {
                Mode::WriterFault
            } else {
                Mode::Damaged
            }
        }
    };
    let mut read = if rng.chance(2, 3) {
        ReadPlan::random_chunking(rng, eintr)
    } else {
        ReadPlan::clean()
    };
    let mut write = WritePlan::clean();
    let mut damage = Vec::new();
    match mode {
        Mode::Clean | Mode::Crafted => {}
        Mode::Cut => {
            // position is resolved against the actual length by the executor (permille)
            let at = rng.range(0, 999);
            if rng.coin() {
                read.eof_at = Some(at)
            } else {
                read.err_at = Some(at)
            }
        }
        Mode::Damaged => {
            let n = match rng.below(10) {
                0..=5 => 1,
                6..=8 => 2,
                _ => 3,
            };
            for _ in 0..n {
                // half of the time near the head, where tags, lengths and counts live
                let off = if rng.coin() { rng.below(12) as u32 } else { rng.next_u32() };
                damage.push(match rng.below(18) {
                    16 | 17 => Damage::AddInt {
                        off,
                        width: *rng.pick(&[1u8, 2, 4, 4, 8]),
                        delta: *rng.pick(&[1u64, 1, 2, 7, 255, 256, 65536]),
                        le: rng.chance(1, 3),
                    },
                    0..=4 => Damage::Flip {
                        off,
                        bit: rng.below(8) as u8,
                    },
                    5..=9 => {
                        let w = *rng.pick(&[1usize, 2, 4, 8]);
                        let bytes = match rng.below(6) {
                            0 => vec![0xff; w],
                            1 => {
                                let mut b = vec![0xff; w];
                                b[0] = 0x7f;
                                b
                            }
                            2 => {
                                let mut b = vec![0x00; w];
                                b[w - 1] = rng.range(1, 255) as u8;
                                b
                            }
                            3 => {
                                let mut b = vec![0x00; w];
                                b[0] = rng.range(1, 255) as u8;
                                b
                            }
                            4 => vec![0x00; w],
                            _ => rng.bytes(w),
                        };
                        Damage::Set { off, bytes }
                    }
                    10 => Damage::Truncate { len: off },
                    11 => Damage::Insert {
                        off,
                        bytes: {
                            let n = rng.urange(1, 9);
                            rng.bytes(n)
                        },
                    },
                    12 => Damage::Delete {
                        off,
                        len: rng.range(1, 9) as u32,
                    },
                    13 => Damage::Dup {
                        off,
                        len: rng.range(1, 40) as u32,
                    },
                    14 => Damage::Swap {
                        a:   off,
                        b:   rng.next_u32(),
                        len: *rng.pick(&[1u32, 2, 4, 8, 32]),
                    },
                    _ => Damage::Append {
                        bytes: if rng.chance(1, 3) {
                            // tails that are not a complete item themselves: a lone break, the start of a
                            // multi-byte header, a reserved header byte
                            let t: &[&[u8]] = &[
                                &[0xff],
                                &[0x18],
                                &[0x19, 0x01],
                                &[0x1a, 0, 0],
                                &[0x1b, 0, 0, 0],
                                &[0x1c],
                                &[0x38],
                                &[0x5a, 0, 0],
                                &[0x78],
                                &[0x98],
                                &[0xb8],
                                &[0xd8],
                                &[0xf8],
                                &[0xfb, 0],
                                &[0x00],
                            ];
                            rng.pick(t).to_vec()
                        } else {
                            let n = rng.urange(1, 9);
                            rng.bytes(n)
                        },
                    },
                });
            }
        }
        Mode::WriterFault => {
            write = WritePlan::random_chunking(rng, eintr);
            let at = rng.range(0, 999);
            if rng.coin() {
                write.full_at = Some(at)
            } else {
                write.err_at = Some(at)
            }
        }
    }
    StreamPlan {
        subject: s.name.clone(),
        value_seed,
        mode,
        damage,
        read,
        write,
    }
}

fn hx(b: &[u8]) -> String {
    if b.len() > 48 {
        format!("{}…({}B)", hex::encode(&b[..48]), b.len())
    } else {
        hex::encode(b)
    }
}

/// Structural signature of a canonicity failure, so that known findings are
/// keyed by what is non-canonical rather than by the containing type.
fn classify_noncanonical(s: &Subject, consumed: &[u8], reenc: &[u8]) -> String {
    let d = consumed.iter().zip(reenc.iter()).position(|(a, b)| a != b).unwrap_or(consumed.len().min(reenc.len()));
    if consumed.len() == reenc.len() {
        // compressed BLS12-381 point with the infinity flag: canonical form is c0 00 .. 00
        for w in [48usize, 96] {
            let lo = d.saturating_sub(w - 1);
            for st in lo..=d {
                if st + w <= reenc.len()
                    && reenc[st] == 0xc0
                    && reenc[st + 1..st + w].iter().all(|x| *x == 0)
                    && consumed[st] & 0x40 != 0
                    && consumed[..st] == reenc[..st]
                    && consumed[st + w..] == reenc[st + w..]
                {
                    return "noncanonical/bls12-381-infinity-flag".into();
                }
            }
        }
        if s.name == "Payload" && consumed.first() == Some(&25) && (d == 1 || d == 2) && consumed[3..] == reenc[3..] {
            return "noncanonical/Payload.ConfigureBaker.bitmap-undefined-bits".into();
        }
    }
    format!("noncanonical/{}/offset{}", s.name, if d < 4 { d.to_string() } else { "N".into() })
}

pub fn execute(plan: &StreamPlan, subjects: &[Subject], rec: &mut Recorder) -> Option<Violation> {
    let s = subjects.iter().find(|s| s.name == plan.subject)?;
    rec.op();
    rec.log_str(&s.name);
    let bytes = (s.gen_encode)(plan.value_seed);
    rec.tick(bytes.len() as u64);
    rec.log_bytes(&bytes);
    let note_io = |rec: &mut Recorder, io: &simcore::faultio::IoStats| {
        if io.short > 0 {
            rec.fault("short_read_or_write");
        }
        if io.interrupted > 0 {
            rec.fault("eintr");
        }
        if io.eof_fired {
            rec.fault("eof");
        }
        if io.err_fired {
            rec.fault("io_error");
        }
        if io.full_fired {
            rec.fault("writer_full");
        }
    };
    let alloc_check = |st: alloc::AllocStats, input_len: usize, what: &str| -> Option<Violation> {
        if st.max_request > MAX_SINGLE_REQUEST_BASE + MAX_SINGLE_REQUEST_PER_INPUT_BYTE * input_len {
            return Some(Violation::new(
                "allocation",
                format!("allocation/single-request/{}", s.name),
                format!("{} of {} input bytes requested a single allocation of {} bytes", what, input_len, st.max_request),
                0,
            ));
        }
        if st.peak_growth > MAX_PEAK_BASE + MAX_PEAK_PER_INPUT_BYTE * input_len {
            return Some(Violation::new(
                "allocation",
                format!("allocation/peak/{}", s.name),
                format!("{} of {} input bytes grew live memory by {} bytes", what, input_len, st.peak_growth),
                0,
            ));
        }
        None
    };
    match plan.mode {
        Mode::Clean => {
            let mut read = plan.read.clone();
            read.eof_at = None;
            read.err_at = None;
            if let Err(e) = (s.typed)(plan.value_seed, &read) {
                return Some(Violation::new("roundtrip", format!("roundtrip/{}", s.name), format!("{}: {} (encoding {})", s.name, e, hx(&bytes)), 0));
            }
            alloc::start();
            let out = (s.decode)(&bytes, &read);
            let st = alloc::stop();
            note_io(rec, &out.io);
            rec.log_u64(out.consumed as u64);
            match out.res {
                Ok(re) => {
                    if out.consumed != bytes.len() {
                        return Some(Violation::new(
                            "roundtrip",
                            format!("roundtrip-consumed/{}", s.name),
                            format!("{}: decoder consumed {} of {} bytes of {}", s.name, out.consumed, bytes.len(), hx(&bytes)),
                            0,
                        ));
                    }
                    if s.stable_bytes && re != bytes {
                        return Some(Violation::new(
                            "roundtrip",
                            format!("roundtrip-reencode/{}", s.name),
                            format!("{}: re-encoding {} differs from the original encoding {}", s.name, hx(&re), hx(&bytes)),
                            0,
                        ));
                    }
                }
                Err(e) => {
                    return Some(Violation::new(
                        "roundtrip",
                        format!("roundtrip/{}", s.name),
                        format!("{}: decoding a valid encoding under chunking {:?} failed: {} (encoding {})", s.name, read.chunks, e, hx(&bytes)),
                        0,
                    ))
                }
            }
            alloc_check(st, bytes.len(), "decoding a valid encoding")
        }
        Mode::Cut => {
            if bytes.is_empty() {
                return None;
            }
            let mut read = plan.read.clone();
            // resolve the permille position against the actual length: strictly inside
            let pos = |pm: u64| -> u64 { (pm * bytes.len() as u64 / 1000).min(bytes.len() as u64 - 1) };
            read.eof_at = read.eof_at.map(pos);
            read.err_at = read.err_at.map(pos);
            alloc::start();
            let out = (s.decode)(&bytes, &read);
            let st = alloc::stop();
            note_io(rec, &out.io);
            rec.log_u64(out.consumed as u64);
            if out.res.is_ok() {
                return Some(Violation::new(
                    "truncation",
                    format!("truncation-accepted/{}", s.name),
                    format!(
                        "{}: the stream {} after {} of {} bytes and decoding still succeeded (encoding {})",
                        s.name,
                        if read.eof_at.is_some() { "ended" } else { "failed" },
                        read.eof_at.or(read.err_at).unwrap(),
                        bytes.len(),
                        hx(&bytes)
                    ),
                    0,
                ));
            }
            alloc_check(st, bytes.len(), "decoding a truncated encoding")
        }
        Mode::Damaged => {
            let mut b = bytes.clone();
            for d in &plan.damage {
                d.apply(&mut b);
                rec.fault(d.kind());
            }
            let mut read = plan.read.clone();
            read.eof_at = None;
            read.err_at = None;
            alloc::start();
            let out = (s.decode)(&b, &read);
            let st = alloc::stop();
            note_io(rec, &out.io);
            rec.log_u64(out.consumed as u64);
            rec.log_u64(out.res.is_ok() as u64);
            if let Some(v) = alloc_check(st, b.len(), "decoding damaged bytes") {
                return Some(v);
            }
            if out.res.is_ok()
                && s.rejects_trailing
                && !plan.damage.is_empty()
                && plan.damage.iter().all(|d| matches!(d, Damage::Append { bytes } if !bytes.is_empty()))
            {
                // a complete encoding followed by anything at all is not an encoding of the value
                return Some(Violation::new(
                    "trailing",
                    format!("trailing-accepted/{}", s.name),
                    format!(
                        "{}: the encoding {} followed by the extra bytes {} is accepted by a decoder that documents rejecting remaining data",
                        s.name,
                        hx(&bytes),
                        hx(&b[bytes.len()..])
                    ),
                    0,
                ));
            }
            if let Ok(re) = out.res {
                rec.probe("damaged_accepted");
                let consumed = if s.rejects_trailing { b.len() } else { out.consumed.min(b.len()) };
                if s.canonical {
                    if re != b[..consumed] {
                        let sig = classify_noncanonical(s, &b[..consumed], &re);
                        return Some(Violation::new(
                            "canonical",
                            sig,
                            format!(
                                "{}: bytes {} are accepted but the decoded value re-encodes as {} (a second accepted encoding of one value)",
                                s.name,
                                hx(&b[..consumed]),
                                hx(&re)
                            ),
                            0,
                        ));
                    }
                } else if s.family == Family::ContractsCommon && re.len() != consumed {
                    return Some(Violation::new(
                        "duplicates",
                        format!("length-changed/{}", s.name),
                        format!(
                            "{}: {} accepted bytes {} decode to a value whose encoding has {} bytes {} (duplicate or dropped elements accepted)",
                            s.name,
                            consumed,
                            hx(&b[..consumed]),
                            re.len(),
                            hx(&re)
                        ),
                        0,
                    ));
                } else if s.stable_bytes {
                    // no uniqueness claim: the decoded value must at least round-trip stably
                    let out2 = (s.decode)(&re, &ReadPlan::clean());
                    match out2.res {
                        Ok(re2) if re2 == re => {}
                        Ok(re2) => {
                            return Some(Violation::new(
                                "roundtrip",
                                format!("roundtrip-unstable/{}", s.name),
                                format!("{}: value decoded from {} encodes as {} which decodes and encodes as {}", s.name, hx(&b), hx(&re), hx(&re2)),
                                0,
                            ))
                        }
                        Err(e) => {
                            return Some(Violation::new(
                                "roundtrip",
                                format!("roundtrip-unstable/{}", s.name),
                                format!("{}: value decoded from {} encodes as {} which does not decode: {}", s.name, hx(&b), hx(&re), e),
                                0,
                            ))
                        }
                    }
                }
            } else {
                rec.probe("damaged_rejected");
            }
            None
        }
        Mode::Crafted => {
            let craft = match &s.crafted {
                Some(c) => c,
                None => return None,
            };
            let (b, expect) = craft(plan.value_seed);
            rec.fault("crafted_encoding");
            let mut read = plan.read.clone();
            read.eof_at = None;
            read.err_at = None;
            alloc::start();
            let out = (s.decode)(&b, &read);
            let st = alloc::stop();
            note_io(rec, &out.io);
            rec.log_bytes(&b);
            rec.log_u64(out.res.is_ok() as u64);
            if let Some(v) = alloc_check(st, b.len(), "decoding a crafted encoding") {
                return Some(v);
            }
            match (expect, &out.res) {
                (Some(true), Err(e)) => {
                    return Some(Violation::new(
                        "crafted",
                        format!("crafted-rejected/{}", s.name),
                        format!("{}: a valid (if unusual) encoding {} is rejected: {}", s.name, hx(&b), e),
                        0,
                    ))
                }
                (Some(false), Ok(re)) => {
                    return Some(Violation::new(
                        "crafted",
                        format!("crafted-accepted/{}", s.name),
                        format!("{}: the ill-formed or ill-typed encoding {} is accepted (decoded value re-encodes as {})", s.name, hx(&b), hx(re)),
                        0,
                    ))
                }
                _ => {}
            }
            if let Ok(re) = out.res {
                // an accepted byte string of a type with unique encodings is the encoding of the value
                if s.canonical && s.stable_bytes && out.consumed <= b.len() && re != b[..out.consumed] {
                    return Some(Violation::new(
                        "canonical",
                        classify_noncanonical(s, &b[..out.consumed], &re),
                        format!(
                            "{}: the crafted byte string {} is accepted, but the decoded value encodes as {}: two encodings of one value",
                            s.name,
                            hx(&b[..out.consumed]),
                            hx(&re)
                        ),
                        0,
                    ));
                }
                if s.stable_bytes {
                    let out2 = (s.decode)(&re, &ReadPlan::clean());
                    match out2.res {
                        Ok(re2) if re2 == re => {}
                        other => {
                            return Some(Violation::new(
                                "roundtrip",
                                format!("roundtrip-unstable/{}", s.name),
                                format!("{}: value decoded from {} encodes as {} which then gives {:?}", s.name, hx(&b), hx(&re), other.map(|x| hx(&x))),
                                0,
                            ))
                        }
                    }
                }
            }
            None
        }
        Mode::WriterFault => {
            let enc = match &s.encode_faulty {
                Some(e) => e,
                None => return None,
            };
            let mut write = plan.write.clone();
            if bytes.is_empty() {
                return None;
            }
            let pos = |pm: u64| -> u64 { (pm * bytes.len() as u64 / 1000).min(bytes.len() as u64 - 1) };
            write.full_at = write.full_at.map(pos);
            write.err_at = write.err_at.map(pos);
            let out = enc(plan.value_seed, &write);
            note_io(rec, &out.io);
            rec.log_u64(out.accepted.len() as u64);
            if out.ok {
                return Some(Violation::new(
                    "writer",
                    format!("writer-fault-swallowed/{}", s.name),
                    format!(
                        "{}: the writer refused bytes after {} of {} but the encoder reported success",
                        s.name,
                        out.accepted.len(),
                        bytes.len()
                    ),
                    0,
                ));
            }
            if !bytes.starts_with(&out.accepted) {
                return Some(Violation::new(
                    "writer",
                    format!("writer-prefix/{}", s.name),
                    format!("{}: bytes accepted by the writer {} are not a prefix of the encoding {}", s.name, hx(&out.accepted), hx(&bytes)),
                    0,
                ));
            }
            None
        }
    }
}

pub fn shrink(plan: &StreamPlan) -> Vec<StreamPlan> {
    let mut out = Vec::new();
    for d in simcore::driver::shrink_vec(&plan.damage) {
        if !d.is_empty() || plan.mode != Mode::Damaged {
            let mut p = plan.clone();
            p.damage = d;
            out.push(p);
        }
    }
    if !plan.read.chunks.is_empty() {
        let mut p = plan.clone();
        p.read.chunks.clear();
        out.push(p);
    }
    if !plan.write.chunks.is_empty() {
        let mut p = plan.clone();
        p.write.chunks.clear();
        out.push(p);
    }
    // simpler damage: shorter overwrite / insert
    for (i, d) in plan.damage.iter().enumerate() {
        let simpler = match d {
            Damage::Set { off, bytes } if bytes.len() > 1 => Some(Damage::Set {
                off:   *off,
                bytes: bytes[..bytes.len() / 2].to_vec(),
            }),
            Damage::Insert { off, bytes } if bytes.len() > 1 => Some(Damage::Insert {
                off:   *off,
                bytes: bytes[..1].to_vec(),
            }),
            Damage::Append { bytes } if bytes.len() > 1 => Some(Damage::Append { bytes: bytes[..1].to_vec() }),
            _ => None,
        };
        if let Some(sd) = simpler {
            let mut p = plan.clone();
            p.damage[i] = sd;
            out.push(p);
        }
    }
    // a few other values of the same subject
    for k in 1..=6u64 {
        let mut p = plan.clone();
        p.value_seed = k;
        if p.value_seed != plan.value_seed && plan.value_seed > 6 {
            out.push(p);
        }
    }
    out
}
