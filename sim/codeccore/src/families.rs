//! Adapters turning typed codecs into byte-level `Subject`s for the three
//! codec families (concordium_base binary, contracts-common, CBOR).
use crate::subject::*;
use concordium_base::common as cb;
use concordium_contracts_common as cc;
use simcore::{
    faultio::{ReadPlan, SimReader, SimWriter, WritePlan},
    Rng,
};
use std::fmt::Debug;

// ---------------------------------------------------------------------------
// concordium_base::common::{Serial, Deserial} over std::io::Read
// ---------------------------------------------------------------------------


/// Crafted input for every subject of a family with unique encodings: a valid encoding whose first
/// one to three bytes (where tags, variant numbers, bitmaps and counts live) are replaced by sparse,
/// small or arbitrary values. Only totality, bounded allocation and uniqueness of the encoding are
/// required of the result.
fn damage_head(seed: u64, mut b: Vec<u8>) -> (Vec<u8>, Option<bool>) {
    let mut rng = Rng::new(seed ^ 0x5EED_C0DE);
    if b.is_empty() {
        b.push(rng.next_u32() as u8);
        return (b, None);
    }
    let k = rng.urange(1, 3).min(b.len());
    let at = if rng.chance(3, 4) { 0 } else { rng.usize_below(b.len() - k + 1) };
    for i in 0..k {
        b[at + i] = match rng.below(5) {
            0 => b[at + i] ^ (1 << rng.below(8)),
            1 => rng.below(40) as u8,
            2 => 1 << rng.below(8),
            3 => 0xff - rng.below(4) as u8,
            _ => rng.next_u32() as u8,
        };
    }
    (b, None)
}

pub fn base_subject<T>(name: &str, gen: fn(&mut Rng) -> T) -> Subject
where
    T: cb::Serial + cb::Deserial + PartialEq + Debug + 'static, {
    Subject {
        name:             name.to_string(),
        family:           Family::Base,
        canonical:        true,
        stable_bytes:     true,
        gen_encode:       Box::new(move |seed| cb::to_bytes(&gen(&mut Rng::new(seed)))),
        decode:           Box::new(move |bytes, plan| {
            let mut r = SimReader::new(bytes, plan);
            let res = <T as cb::Deserial>::deserial(&mut r);
            DecodeOut {
                res:      res.map(|v| cb::to_bytes(&v)).map_err(|e| format!("{:#}", e)),
                consumed: r.consumed(),
                io:       r.stats,
            }
        }),
        typed:            Box::new(move |seed, plan| {
            let v = gen(&mut Rng::new(seed));
            let b = cb::to_bytes(&v);
            let mut r = SimReader::new(&b, plan);
            match <T as cb::Deserial>::deserial(&mut r) {
                Ok(v2) => {
                    if v2 != v {
                        return Err(format!("decoded value differs from the original: {:?} vs {:?}", v2, v));
                    }
                    if r.consumed() != b.len() {
                        return Err(format!("decoder consumed {} of {} bytes", r.consumed(), b.len()));
                    }
                    Ok(())
                }
                Err(e) => Err(format!("decoding the encoding of a value failed: {:#}", e)),
            }
        }),
        encode_faulty:    None,
        rejects_trailing: false,
        crafted: Some(Box::new(move |seed| damage_head(seed, cb::to_bytes(&gen(&mut Rng::new(seed)))))),
    }
}

// ---------------------------------------------------------------------------
// concordium-contracts-common {Serial, Deserial} over its own Read / Write
// ---------------------------------------------------------------------------

pub struct CcReader<'a>(pub SimReader<'a>);

impl cc::Read for CcReader<'_> {
    fn read(&mut self, buf: &mut [u8]) -> cc::ParseResult<usize> {
        loop {
            match std::io::Read::read(&mut self.0, buf) {
                Ok(n) => return Ok(n),
                // the contracts-common Read has no notion of EINTR: not injected there
                Err(e) if e.kind() == std::io::ErrorKind::Interrupted => continue,
                Err(_) => return Err(cc::ParseError::default()),
            }
        }
    }
}

pub struct CcWriter<'a>(pub SimWriter<'a>);

impl cc::Write for CcWriter<'_> {
    type Err = ();

    fn write(&mut self, buf: &[u8]) -> Result<usize, ()> {
        loop {
            match std::io::Write::write(&mut self.0, buf) {
                Ok(n) => return Ok(n),
                Err(e) if e.kind() == std::io::ErrorKind::Interrupted => continue,
                Err(_) => return Err(()),
            }
        }
    }
}

pub fn cc_subject<T>(name: &str, canonical: bool, gen: fn(&mut Rng) -> T) -> Subject
where
    T: cc::Serial + cc::Deserial + PartialEq + Debug + 'static, {
    Subject {
        name: name.to_string(),
        family: Family::ContractsCommon,
        canonical,
        stable_bytes: true,
        gen_encode: Box::new(move |seed| cc::to_bytes(&gen(&mut Rng::new(seed)))),
        decode: Box::new(move |bytes, plan| {
            let mut r = CcReader(SimReader::new(bytes, plan));
            let res = <T as cc::Deserial>::deserial(&mut r);
            DecodeOut {
                res:      res.map(|v| cc::to_bytes(&v)).map_err(|_| "ParseError".to_string()),
                consumed: r.0.consumed(),
                io:       r.0.stats,
            }
        }),
        typed: Box::new(move |seed, plan| {
            let v = gen(&mut Rng::new(seed));
            let b = cc::to_bytes(&v);
            let mut r = CcReader(SimReader::new(&b, plan));
            match <T as cc::Deserial>::deserial(&mut r) {
                Ok(v2) => {
                    if v2 != v {
                        return Err(format!("decoded value differs from the original: {:?} vs {:?}", v2, v));
                    }
                    if r.0.consumed() != b.len() {
                        return Err(format!("decoder consumed {} of {} bytes", r.0.consumed(), b.len()));
                    }
                    Ok(())
                }
                Err(_) => Err("decoding the encoding of a value failed".to_string()),
            }
        }),
        encode_faulty: Some(Box::new(move |seed, wp: &WritePlan| {
            let v = gen(&mut Rng::new(seed));
            let mut w = CcWriter(SimWriter::new(wp));
            let ok = <T as cc::Serial>::serial(&v, &mut w).is_ok();
            EncodeOut {
                ok,
                io: w.0.stats,
                accepted: w.0.out,
            }
        })),
        rejects_trailing: false,
        crafted: Some(Box::new(move |seed| damage_head(seed, cc::to_bytes(&gen(&mut Rng::new(seed)))))),
    }
}

// ---------------------------------------------------------------------------
// CBOR: cbor::Decoder<R: io::Read> / cbor::Encoder<W: io::Write>
// ---------------------------------------------------------------------------

use cb::cbor;

pub fn cbor_subject<T>(name: &str, fail_unknown: bool, gen: fn(&mut Rng) -> T) -> Subject
where
    T: cbor::CborSerialize + cbor::CborDeserialize + PartialEq + Debug + 'static, {
    let options = move || {
        cbor::SerializationOptions::default().unknown_map_keys(if fail_unknown {
            cbor::UnknownMapKeys::Fail
        } else {
            cbor::UnknownMapKeys::Ignore
        })
    };
    let decode_stream = move |bytes: &[u8], plan: &ReadPlan| -> (Result<T, String>, usize, simcore::faultio::IoStats) {
        if plan.chunks.is_empty() && plan.is_clean() {
            // the real entry point, including its remaining-data check
            let r = cbor::cbor_decode_with_options::<T>(bytes, options());
            return (r.map_err(|e| format!("{:#}", e)), bytes.len(), Default::default());
        }
        let mut rd = SimReader::new(bytes, plan);
        let res = {
            let mut d = cbor::Decoder::new(&mut rd, options());
            let r = <T as cbor::CborDeserialize>::deserialize(&mut d);
            match r {
                Ok(v) => {
                    let off = d.offset();
                    if off != bytes.len() {
                        Err(format!("data remaining after parse at offset {}", off))
                    } else {
                        Ok(v)
                    }
                }
                Err(e) => Err(format!("{:#}", e)),
            }
        };
        (res, bytes.len(), rd.stats)
    };
    Subject {
        name: name.to_string(),
        family: Family::Cbor,
        canonical: false,
        stable_bytes: true,
        gen_encode: Box::new(move |seed| cbor::cbor_encode(&gen(&mut Rng::new(seed))).expect("cbor_encode of a generated value")),
        decode: Box::new(move |bytes, plan| {
            let (res, consumed, io) = decode_stream(bytes, plan);
            DecodeOut {
                res: res.and_then(|v| cbor::cbor_encode(&v).map_err(|e| format!("re-encoding a decoded value failed: {:#}", e))),
                consumed,
                io,
            }
        }),
        typed: Box::new(move |seed, plan| {
            let v = gen(&mut Rng::new(seed));
            let b = cbor::cbor_encode(&v).map_err(|e| format!("cbor_encode failed: {:#}", e))?;
            // deterministic encoding: the same logical value built again (fresh
            // hash maps, hence fresh hash seeds) must give identical bytes
            for _ in 0..10 {
                let again = cbor::cbor_encode(&gen(&mut Rng::new(seed))).map_err(|e| format!("{:#}", e))?;
                if again != b {
                    return Err(format!(
                        "encoding is not deterministic: {} vs {}",
                        hex::encode(&again),
                        hex::encode(&b)
                    ));
                }
            }
            let (res, _, _) = decode_stream(&b, plan);
            match res {
                Ok(v2) => {
                    if v2 != v {
                        return Err(format!("decoded value differs from the original: {:?} vs {:?}", v2, v));
                    }
                    Ok(())
                }
                Err(e) => Err(format!("decoding the encoding of a value failed: {}", e)),
            }
        }),
        encode_faulty: Some(Box::new(move |seed, wp: &WritePlan| {
            let v = gen(&mut Rng::new(seed));
            let mut w = SimWriter::new(wp);
            let ok = {
                let mut enc = cbor::Encoder::new(&mut w);
                <T as cbor::CborSerialize>::serialize(&v, &mut enc).is_ok()
            };
            EncodeOut {
                ok,
                io: w.stats,
                accepted: w.out,
            }
        })),
        rejects_trailing: true,
        crafted: None,
    }
}
