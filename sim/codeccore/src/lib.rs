//! Byte-level codec subjects, the three codec-family adapters and the stream
//! plan executor shared by streamsim's property batches.
pub mod exec;
pub mod families;
pub mod subject;

pub use families::{base_subject, cbor_subject, cc_subject};
pub use subject::{Family, Subject};
