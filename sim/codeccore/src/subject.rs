//! A codec subject: one type of one codec family, reduced to byte-level
//! closures so that one executor serves all three families.
use serde::{Deserialize, Serialize};
use simcore::{
    faultio::{IoStats, ReadPlan, WritePlan},
    hexser,
};

pub struct DecodeOut {
    /// Ok(re-encoding of the decoded value) or the decoder's error text.
    pub res:      Result<Vec<u8>, String>,
    /// Bytes handed out by the stream.
    pub consumed: usize,
    pub io:       IoStats,
}

pub struct EncodeOut {
    pub ok:       bool,
    /// Bytes the writer accepted.
    pub accepted: Vec<u8>,
    pub io:       IoStats,
}

type F<A, B> = Box<dyn Fn(A) -> B + Send + Sync>;

#[derive(Clone, Copy, Debug, PartialEq, Eq)]
pub enum Family {
    Base,
    ContractsCommon,
    Cbor,
}

pub struct Subject {
    pub name:          String,
    pub family:        Family,
    /// The type claims a unique accepted encoding: a successful decode
    /// re-encodes to exactly the consumed bytes.
    pub canonical:     bool,
    /// Encoding is a function of the value alone (false for hash collections,
    /// whose element order depends on insertion history): byte-level
    /// comparisons of re-encodings are skipped when false.
    pub stable_bytes:  bool,
    /// Encoding of the value generated from a seed.
    pub gen_encode:    F<u64, Vec<u8>>,
    /// Decode `bytes` delivered according to the read plan.
    pub decode:        Box<dyn Fn(&[u8], &ReadPlan) -> DecodeOut + Send + Sync>,
    /// value(seed) -> bytes -> decode under the plan == value (typed equality).
    pub typed:         Box<dyn Fn(u64, &ReadPlan) -> Result<(), String> + Send + Sync>,
    /// Encode value(seed) through a fault-injecting writer (families with a writer seam).
    pub encode_faulty: Option<Box<dyn Fn(u64, &WritePlan) -> EncodeOut + Send + Sync>>,
    /// The decoder entry point rejects trailing bytes itself (e.g. `cbor_decode`).
    pub rejects_trailing: bool,
    /// Hand-crafted (valid but unusual, or subtly invalid) encodings with the expected verdict:
    /// Some(true) = must decode, Some(false) = must be rejected, None = only totality is required.
    pub crafted: Option<Box<dyn Fn(u64) -> (Vec<u8>, Option<bool>) + Send + Sync>>,
}

#[derive(Clone, Debug, Serialize, Deserialize, PartialEq)]
pub enum Damage {
    Flip { off: u32, bit: u8 },
    Set {
        off:   u32,
        #[serde(with = "hexser::bytes")]
        bytes: Vec<u8>,
    },
    Truncate { len: u32 },
    Insert {
        off:   u32,
        #[serde(with = "hexser::bytes")]
        bytes: Vec<u8>,
    },
    Delete { off: u32, len: u32 },
    Dup { off: u32, len: u32 },
    Swap { a: u32, b: u32, len: u32 },
    Append {
        #[serde(with = "hexser::bytes")]
        bytes: Vec<u8>,
    },
    /// Add `delta` to the big-endian (or little-endian) integer of `width` bytes at `off`: a length or
    /// count field that announces a little more than there is.
    AddInt { off: u32, width: u8, delta: u64, le: bool },
}

impl Damage {
    pub fn kind(&self) -> &'static str {
        match self {
            Damage::Flip { .. } => "bit_flip",
            Damage::Set { .. } => "overwrite_length_inflation",
            Damage::Truncate { .. } => "truncate",
            Damage::Insert { .. } => "splice_insert",
            Damage::Delete { .. } => "splice_delete",
            Damage::Dup { .. } => "splice_duplicate",
            Damage::Swap { .. } => "splice_swap",
            Damage::Append { .. } => "append_trailing",
            Damage::AddInt { .. } => "length_field_increment",
        }
    }

    pub fn apply(&self, b: &mut Vec<u8>) {
        let n = b.len();
        match self {
            Damage::Flip { off, bit } => {
                if n > 0 {
                    b[*off as usize % n] ^= 1 << (bit & 7);
                }
            }
            Damage::Set { off, bytes } => {
                if n > 0 {
                    let o = *off as usize % n;
                    for (i, x) in bytes.iter().enumerate() {
                        if o + i < n {
                            b[o + i] = *x;
                        }
                    }
                }
            }
            Damage::Truncate { len } => {
                if n > 0 {
                    b.truncate(*len as usize % n);
                }
            }
            Damage::Insert { off, bytes } => {
                let o = *off as usize % (n + 1);
                let tail = b.split_off(o);
                b.extend_from_slice(bytes);
                b.extend_from_slice(&tail);
            }
            Damage::Delete { off, len } => {
                if n > 0 {
                    let o = *off as usize % n;
                    let e = (o + *len as usize).min(n);
                    b.drain(o..e);
                }
            }
            Damage::Dup { off, len } => {
                if n > 0 {
                    let o = *off as usize % n;
                    let e = (o + *len as usize).min(n);
                    let piece = b[o..e].to_vec();
                    let tail = b.split_off(e);
                    b.extend_from_slice(&piece);
                    b.extend_from_slice(&tail);
                }
            }
            Damage::Swap { a, b: bb, len } => {
                if n > 0 {
                    let l = (*len as usize).max(1);
                    let a = *a as usize % n;
                    let c = *bb as usize % n;
                    let (lo, hi) = if a <= c { (a, c) } else { (c, a) };
                    if lo + l <= hi && hi + l <= n {
                        for i in 0..l {
                            b.swap(lo + i, hi + i);
                        }
                    }
                }
            }
            Damage::Append { bytes } => b.extend_from_slice(bytes),
            Damage::AddInt { off, width, delta, le } => {
                let w = (*width as usize).clamp(1, 8);
                if n >= w {
                    let at = *off as usize % (n - w + 1);
                    let mut v: u64 = 0;
                    for i in 0..w {
                        let byte = if *le { b[at + w - 1 - i] } else { b[at + i] };
                        v = (v << 8) | byte as u64;
                    }
                    v = v.wrapping_add(*delta);
                    for i in 0..w {
                        let byte = (v >> (8 * (w - 1 - i))) as u8;
                        if *le {
                            b[at + w - 1 - i] = byte;
                        } else {
                            b[at + i] = byte;
                        }
                    }
                }
            }
        }
    }
}
