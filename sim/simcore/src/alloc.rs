//! Counting allocator (the "allocation size" seam). A binary opts in with
//! `#[global_allocator] static A: simcore::alloc::CountingAlloc = simcore::alloc::CountingAlloc;`
//! Tracking is per thread and only between `start()` and `stop()`.
use std::{
    alloc::{GlobalAlloc, Layout, System},
    cell::Cell,
};

pub struct CountingAlloc;

thread_local! {
    static TRACK: Cell<bool> = const { Cell::new(false) };
    static CUR: Cell<isize> = const { Cell::new(0) };
    static PEAK: Cell<isize> = const { Cell::new(0) };
    static MAXREQ: Cell<usize> = const { Cell::new(0) };
    static TOTAL: Cell<usize> = const { Cell::new(0) };
}

#[inline]
fn on_alloc(size: usize) {
    let _ = TRACK.try_with(|t| {
        if t.get() {
            let _ = MAXREQ.try_with(|m| {
                if size > m.get() {
                    m.set(size)
                }
            });
            let _ = TOTAL.try_with(|m| m.set(m.get().saturating_add(size)));
            let _ = CUR.try_with(|c| {
                let v = c.get() + size as isize;
                c.set(v);
                let _ = PEAK.try_with(|p| {
                    if v > p.get() {
                        p.set(v)
                    }
                });
            });
        }
    });
}

#[inline]
fn on_free(size: usize) {
    let _ = TRACK.try_with(|t| {
        if t.get() {
            let _ = CUR.try_with(|c| c.set(c.get() - size as isize));
        }
    });
}

unsafe impl GlobalAlloc for CountingAlloc {
    unsafe fn alloc(&self, layout: Layout) -> *mut u8 {
        on_alloc(layout.size());
        System.alloc(layout)
    }

    unsafe fn alloc_zeroed(&self, layout: Layout) -> *mut u8 {
        on_alloc(layout.size());
        System.alloc_zeroed(layout)
    }

    unsafe fn dealloc(&self, ptr: *mut u8, layout: Layout) {
        on_free(layout.size());
        System.dealloc(ptr, layout)
    }

    unsafe fn realloc(&self, ptr: *mut u8, layout: Layout, new_size: usize) -> *mut u8 {
        if new_size > layout.size() {
            on_alloc(new_size - layout.size());
            // a realloc to new_size is one request of new_size bytes
            let _ = TRACK.try_with(|t| {
                if t.get() {
                    let _ = MAXREQ.try_with(|m| {
                        if new_size > m.get() {
                            m.set(new_size)
                        }
                    });
                }
            });
        } else {
            on_free(layout.size() - new_size);
        }
        System.realloc(ptr, layout, new_size)
    }
}

#[derive(Debug, Clone, Copy, Default)]
pub struct AllocStats {
    /// Largest single request (bytes).
    pub max_request: usize,
    /// Peak growth of live bytes relative to `start()`.
    pub peak_growth: usize,
    /// Sum of all requests.
    pub total:       usize,
}

pub fn start() {
    CUR.with(|c| c.set(0));
    PEAK.with(|c| c.set(0));
    MAXREQ.with(|c| c.set(0));
    TOTAL.with(|c| c.set(0));
    TRACK.with(|t| t.set(true));
}

pub fn stop() -> AllocStats {
    TRACK.with(|t| t.set(false));
    AllocStats {
        max_request: MAXREQ.with(|c| c.get()),
        peak_growth: PEAK.with(|c| c.get()).max(0) as usize,
        total:       TOTAL.with(|c| c.get()),
    }
}

/// Allocator for engines that run the Wasm interpreter: every execution
/// allocates a zeroed 32 MiB block for the linear memory and frees it again.
/// In this sandbox (micro-VM) the resulting mmap/munmap/page-fault churn does
/// not scale beyond one process, so one such block is cached per thread and
/// re-zeroed only up to the configured dirty limit (the largest linear memory
/// the programs of the current run can reach; default: the whole block).
pub struct BigBlockAlloc;

pub const BIG_BLOCK: usize = 512 * 65536;

const NCACHE: usize = 6;

thread_local! {
    static CACHED: Cell<[*mut u8; NCACHE]> = const { Cell::new([std::ptr::null_mut(); NCACHE]) };
    static DIRTY_LIMIT: Cell<usize> = const { Cell::new(BIG_BLOCK) };
}

/// Bytes at the start of a cached block that may have been written since it
/// was handed out (rounded up by the caller to what its programs can reach).
pub fn set_dirty_limit(bytes: usize) { DIRTY_LIMIT.with(|d| d.set(bytes.min(BIG_BLOCK))) }

fn take_cached() -> *mut u8 {
    CACHED
        .try_with(|c| {
            let mut a = c.get();
            for slot in a.iter_mut() {
                if !slot.is_null() {
                    let p = *slot;
                    *slot = std::ptr::null_mut();
                    c.set(a);
                    return p;
                }
            }
            std::ptr::null_mut()
        })
        .unwrap_or(std::ptr::null_mut())
}

fn put_cached(p: *mut u8) -> bool {
    CACHED
        .try_with(|c| {
            let mut a = c.get();
            for slot in a.iter_mut() {
                if slot.is_null() {
                    *slot = p;
                    c.set(a);
                    return true;
                }
            }
            false
        })
        .unwrap_or(false)
}

unsafe impl GlobalAlloc for BigBlockAlloc {
    unsafe fn alloc(&self, layout: Layout) -> *mut u8 {
        if layout.size() == BIG_BLOCK {
            let p = take_cached();
            if !p.is_null() {
                return p;
            }
        }
        System.alloc(layout)
    }

    unsafe fn alloc_zeroed(&self, layout: Layout) -> *mut u8 {
        if layout.size() == BIG_BLOCK {
            let p = take_cached();
            if !p.is_null() {
                let n = DIRTY_LIMIT.try_with(|d| d.get()).unwrap_or(BIG_BLOCK);
                std::ptr::write_bytes(p, 0, n);
                return p;
            }
        }
        System.alloc_zeroed(layout)
    }

    unsafe fn dealloc(&self, ptr: *mut u8, layout: Layout) {
        if layout.size() == BIG_BLOCK && put_cached(ptr) {
            return;
        }
        System.dealloc(ptr, layout)
    }
}
