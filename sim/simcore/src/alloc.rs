//! Counting allocator (the "allocation size" seam). A binary opts in with
//! `#[global_allocator] static A: simcore::alloc::CountingAlloc = simcore::alloc::CountingAlloc;`
//! Tracking is per thread and only between `start()` and `stop()`.
use std::{
    alloc::{GlobalAlloc, Layout, System},
    cell::Cell,
};

pub struct CountingAlloc;

thread_local! {
    static TRACK: Cell<bool> = const { Cell::new(false) };
    static CUR: Cell<isize> = const { Cell::new(0) };
    static PEAK: Cell<isize> = const { Cell::new(0) };
    static MAXREQ: Cell<usize> = const { Cell::new(0) };
    static TOTAL: Cell<usize> = const { Cell::new(0) };
}

#[inline]
fn on_alloc(size: usize) {
    let _ = TRACK.try_with(|t| {
        if t.get() {
            let _ = MAXREQ.try_with(|m| {
                if size > m.get() {
                    m.set(size)
                }
            });
            let _ = TOTAL.try_with(|m| m.set(m.get().saturating_add(size)));
            let _ = CUR.try_with(|c| {
                let v = c.get() + size as isize;
                c.set(v);
                let _ = PEAK.try_with(|p| {
                    if v > p.get() {
                        p.set(v)
                    }
                });
            });
        }
    });
}

#[inline]
fn on_free(size: usize) {
    let _ = TRACK.try_with(|t| {
        if t.get() {
            let _ = CUR.try_with(|c| c.set(c.get() - size as isize));
        }
    });
}

unsafe impl GlobalAlloc for CountingAlloc {
    unsafe fn alloc(&self, layout: Layout) -> *mut u8 {
        on_alloc(layout.size());
        System.alloc(layout)
    }

    unsafe fn alloc_zeroed(&self, layout: Layout) -> *mut u8 {
        on_alloc(layout.size());
        System.alloc_zeroed(layout)
    }

    unsafe fn dealloc(&self, ptr: *mut u8, layout: Layout) {
        on_free(layout.size());
        System.dealloc(ptr, layout)
    }

    unsafe fn realloc(&self, ptr: *mut u8, layout: Layout, new_size: usize) -> *mut u8 {
        if new_size > layout.size() {
            on_alloc(new_size - layout.size());
            // a realloc to new_size is one request of new_size bytes
            let _ = TRACK.try_with(|t| {
                if t.get() {
                    let _ = MAXREQ.try_with(|m| {
                        if new_size > m.get() {
                            m.set(new_size)
                        }
                    });
                }
            });
        } else {
            on_free(layout.size() - new_size);
        }
        System.realloc(ptr, layout, new_size)
    }
}

#[derive(Debug, Clone, Copy, Default)]
pub struct AllocStats {
    /// Largest single request (bytes).
    pub max_request: usize,
    /// Peak growth of live bytes relative to `start()`.
    pub peak_growth: usize,
    /// Sum of all requests.
    pub total:       usize,
}

pub fn start() {
    CUR.with(|c| c.set(0));
    PEAK.with(|c| c.set(0));
    MAXREQ.with(|c| c.set(0));
    TOTAL.with(|c| c.set(0));
    TRACK.with(|t| t.set(true));
}

pub fn stop() -> AllocStats {
    TRACK.with(|t| t.set(false));
    AllocStats {
        max_request: MAXREQ.with(|c| c.get()),
        peak_growth: PEAK.with(|c| c.get()).max(0) as usize,
        total:       TOTAL.with(|c| c.get()),
    }
}
