//! Batch driver shared by all engines: seeded generation, parallel execution
//! with run-index-ordered merging, panic capture, hang watchdog, minimisation,
//! replay files, known-findings handling and evidence output.
use crate::rng::{run_seed, Rng};
use serde::{de::DeserializeOwned, Deserialize, Serialize};
use serde_json::{json, Value};
use std::{
    cell::RefCell,
    collections::{BTreeMap, BTreeSet, HashSet},
    panic::{catch_unwind, AssertUnwindSafe},
    path::PathBuf,
    sync::{
        atomic::{AtomicBool, AtomicU64, Ordering},
    },
    time::{Duration, Instant},
};

pub const DEFAULT_SEED: u64 = 20260923;

#[derive(Clone, Copy, Debug, PartialEq, Eq)]
pub enum Tier {
    Quick,
    Thorough,
}

impl Tier {
    pub fn as_str(self) -> &'static str {
        match self {
            Tier::Quick => "quick",
            Tier::Thorough => "thorough",
        }
    }
}

#[derive(Clone, Debug, Serialize, Deserialize)]
pub struct Violation {
    /// Which oracle failed (stable identifier); minimisation keeps this fixed.
    pub oracle:    String,
    /// Structural signature used to match entries of known_findings.json.
    pub signature: String,
    /// Human readable: what the model said and what the code said.
    pub detail:    String,
    /// Step of the plan at which the oracle failed.
    pub step:      usize,
}

impl Violation {
    pub fn new(oracle: &str, signature: impl Into<String>, detail: impl Into<String>, step: usize) -> Self {
        Violation {
            oracle: oracle.to_string(),
            signature: signature.into(),
            detail: detail.into(),
            step,
        }
    }
}

/// Per-run recorder: event log fingerprint, counters and state signatures.
#[derive(Default)]
pub struct Recorder {
    fp:             u64,
    pub ops:        u64,
    pub time:       u64,
    pub faults:     BTreeMap<&'static str, u64>,
    pub probes:     BTreeMap<&'static str, u64>,
    pub state_sigs: Vec<u64>,
    pub nontrivial: bool,
}

impl Recorder {
    pub fn new() -> Self {
        Recorder {
            fp: 0xcbf2_9ce4_8422_2325,
            ..Default::default()
        }
    }

    #[inline]
    pub fn log_bytes(&mut self, b: &[u8]) {
        let mut h = self.fp;
        for x in b {
            h ^= *x as u64;
            h = h.wrapping_mul(0x0000_0100_0000_01B3);
        }
        // separator so that ("ab","c") and ("a","bc") differ
        h ^= 0xff;
        h = h.wrapping_mul(0x0000_0100_0000_01B3);
        self.fp = h;
    }

    #[inline]
    pub fn log_u64(&mut self, x: u64) { self.log_bytes(&x.to_le_bytes()) }

    #[inline]
    pub fn log_str(&mut self, s: &str) { self.log_bytes(s.as_bytes()) }

    #[inline]
    pub fn op(&mut self) { self.ops += 1 }

    #[inline]
    pub fn tick(&mut self, n: u64) { self.time += n }

    #[inline]
    pub fn fault(&mut self, kind: &'static str) {
        *self.faults.entry(kind).or_insert(0) += 1;
        self.nontrivial = true;
    }

    #[inline]
    pub fn probe(&mut self, name: &'static str) { *self.probes.entry(name).or_insert(0) += 1 }

    #[inline]
    pub fn state(&mut self, sig: u64) { self.state_sigs.push(sig) }

    pub fn fingerprint(&self) -> u64 { self.fp }
}

pub trait Scenario: Sync {
    type Plan: Clone + Send + Serialize + DeserializeOwned;
    /// Batch name (stable, used in seeds and replay files).
    fn name(&self) -> &'static str;
    fn generate(&self, rng: &mut Rng, tier: Tier) -> Self::Plan;
    /// Execute the plan against real code and the model. Never draws randomness.
    fn execute(&self, plan: &Self::Plan, rec: &mut Recorder) -> Option<Violation>;
    /// Smaller candidate plans, most aggressive first.
    fn shrink(&self, plan: &Self::Plan) -> Vec<Self::Plan>;
}

thread_local! {
    static LAST_PANIC: RefCell<Option<(String, String)>> = const { RefCell::new(None) };
}

pub fn install_panic_hook() {
    std::panic::set_hook(Box::new(|info| {
        let loc = info
            .location()
            .map(|l| format!("{}:{}", l.file(), l.line()))
            .unwrap_or_else(|| "?".into());
        let msg = if let Some(s) = info.payload().downcast_ref::<&str>() {
            s.to_string()
        } else if let Some(s) = info.payload().downcast_ref::<String>() {
            s.clone()
        } else {
            "<non-string panic>".into()
        };
        LAST_PANIC.with(|p| *p.borrow_mut() = Some((loc, msg)));
    }));
}

/// Run `execute` with panics turned into violations.
pub fn guarded_execute<S: Scenario>(s: &S, plan: &S::Plan, rec: &mut Recorder) -> Option<Violation> {
    let r = catch_unwind(AssertUnwindSafe(|| s.execute(plan, rec)));
    match r {
        Ok(v) => v,
        Err(_) => {
            let (loc, msg) = LAST_PANIC
                .with(|p| p.borrow_mut().take())
                .unwrap_or_else(|| ("?".into(), "?".into()));
            let short_loc = loc.rsplit('/').next().unwrap_or(&loc).to_string();
            let short: String = msg.chars().take(80).collect();
            Some(Violation::new(
                "panic",
                format!("panic@{}", short_loc),
                format!("code under test panicked at {}: {}", loc, short),
                rec.ops as usize,
            ))
        }
    }
}

#[derive(Clone, Debug, Deserialize)]
pub struct KnownFinding {
    pub property:  String,
    pub signature: String,
    pub status:    String,
    #[serde(default)]
    pub what:      String,
    #[serde(default)]
    pub commit:    String,
}

#[derive(Deserialize)]
struct KnownFile {
    findings: Vec<KnownFinding>,
}

#[derive(Serialize, Deserialize)]
pub struct ReplayFile {
    pub property:  String,
    pub engine:    String,
    pub batch:     String,
    pub oracle:    String,
    pub signature: String,
    pub seed:      u64,
    pub run_index: u64,
    pub detail:    String,
    pub step:      usize,
    pub plan:      Value,
}

/// What a range of runs produced, before reporting (also the exchange
/// format between worker processes and their parent).
#[derive(Default, Serialize, Deserialize)]
pub struct RawBatch {
    runs:       u64,
    ops:        u64,
    time:       u64,
    nontrivial: u64,
    digest:     u64,
    faults:     BTreeMap<String, u64>,
    probes:     BTreeMap<String, u64>,
    distinct:   Vec<u64>,
    states:     Vec<u64>,
    viol:       Vec<(u64, Violation)>,
    fps:        Vec<(u64, u64)>,
}

impl RawBatch {
    fn merge(&mut self, o: RawBatch) {
        self.runs += o.runs;
        self.ops += o.ops;
        self.time += o.time;
        self.nontrivial += o.nontrivial;
        self.digest = self.digest.wrapping_add(o.digest);
        for (k, n) in o.faults {
            *self.faults.entry(k).or_insert(0) += n;
        }
        for (k, n) in o.probes {
            *self.probes.entry(k).or_insert(0) += n;
        }
        self.distinct.extend(o.distinct);
        self.states.extend(o.states);
        self.viol.extend(o.viol);
        self.fps.extend(o.fps);
    }
}

#[derive(Default)]
struct BatchReport {
    name:        String,
    runs:        u64,
    planned:     u64,
    truncated:   bool,
    ops:         u64,
    time:        u64,
    nontrivial:  u64,
    wall_s:      f64,
    digest:      u64,
    faults:      BTreeMap<String, u64>,
    probes:      BTreeMap<String, u64>,
    violations:  u64,
    samples:     Vec<Value>,
}

pub struct Ctx {
    pub property:   String,
    pub engine:     String,
    pub tier:       Tier,
    pub seed:       u64,
    pub workers:    usize,
    pub root:       PathBuf,
    pub replay:     Option<PathBuf>,
    pub only_batch: Option<String>,
    /// Restrict run indices to [a, b) (used by --isolate children).
    pub range:      Option<(u64, u64)>,
    pub isolate:    bool,
    pub no_evidence: bool,
    /// Run batches in single-threaded worker processes instead of threads.
    pub proc_parallel: bool,
    child_stats:     Option<PathBuf>,
    child_raw:       Vec<(String, RawBatch)>,
    want_child_fps:  bool,
    /// Scale factor for run counts (VERIF_SCALE, default 1.0); used by self tests.
    pub scale:      f64,
    fp_out:         Option<PathBuf>,
    fp_lines:       Vec<String>,
    known:          Vec<KnownFinding>,
    start:          Instant,
    batches:        Vec<BatchReport>,
    distinct_nontrivial: HashSet<u64>,
    distinct_states: HashSet<u64>,
    violations:     u64,
    known_seen:     BTreeSet<String>,
    harness_errors: Vec<String>,
    /// violations whose replay file did not reproduce in a fresh process (not reported as violations)
    unconfirmed: Vec<String>,
    run_timeout:    Duration,
    batch_wall_cap: Duration,
    replay_done:    bool,
}

fn arg_value(args: &[String], name: &str) -> Option<String> {
    args.iter().position(|a| a == name).and_then(|i| args.get(i + 1).cloned())
}

impl Ctx {
    pub fn from_args(engine: &str) -> Ctx {
        let args: Vec<String> = std::env::args().collect();
        let property = arg_value(&args, "--property").unwrap_or_else(|| {
            eprintln!("usage: {} --property <ID> [--tier quick|thorough] [--replay FILE] [--workers N] [--root DIR]", args[0]);
            std::process::exit(2)
        });
        let tier = match arg_value(&args, "--tier")
            .or_else(|| std::env::var("VERIF_TIER").ok())
            .as_deref()
        {
            Some("thorough") => Tier::Thorough,
            _ => Tier::Quick,
        };
        let seed = arg_value(&args, "--seed")
            .or_else(|| std::env::var("VERIF_SEED").ok())
            .and_then(|s| s.trim().parse::<u64>().ok())
            .unwrap_or(DEFAULT_SEED);
        let workers = arg_value(&args, "--workers")
            .or_else(|| std::env::var("VERIF_WORKERS").ok())
            .and_then(|s| s.parse::<usize>().ok())
            .unwrap_or_else(|| std::thread::available_parallelism().map(|n| n.get()).unwrap_or(4))
            .max(1);
        let root = PathBuf::from(
            arg_value(&args, "--root")
                .or_else(|| std::env::var("VERIF_ROOT").ok())
                .unwrap_or_else(|| "/verif".into()),
        );
        let scale = std::env::var("VERIF_SCALE").ok().and_then(|s| s.parse::<f64>().ok()).unwrap_or(1.0);
        let known = std::fs::read_to_string(root.join("known_findings.json"))
            .ok()
            .and_then(|s| serde_json::from_str::<KnownFile>(&s).ok())
            .map(|k| k.findings)
            .unwrap_or_default();
        let run_timeout = Duration::from_secs(
            std::env::var("VERIF_RUN_TIMEOUT_S").ok().and_then(|s| s.parse().ok()).unwrap_or(60),
        );
        let batch_wall_cap = Duration::from_secs(
            std::env::var("VERIF_BATCH_WALL_CAP_S").ok().and_then(|s| s.parse().ok()).unwrap_or(
                if tier == Tier::Quick { 240 } else { 3600 },
            ),
        );
        install_panic_hook();
        Ctx {
            property,
            engine: engine.to_string(),
            tier,
            seed,
            workers,
            root,
            replay: arg_value(&args, "--replay").map(PathBuf::from),
            only_batch: arg_value(&args, "--batch"),
            range: args.iter().position(|a| a == "--range").and_then(|i| {
                Some((args.get(i + 1)?.parse().ok()?, args.get(i + 2)?.parse().ok()?))
            }),
            isolate: args.iter().any(|a| a == "--isolate"),
            no_evidence: args.iter().any(|a| a == "--no-evidence"),
            proc_parallel: false,
            child_stats: arg_value(&args, "--child-stats").map(PathBuf::from),
            child_raw: Vec::new(),
            want_child_fps: args.iter().any(|a| a == "--child-fps"),
            scale,
            fp_out: arg_value(&args, "--dump-fingerprints").map(PathBuf::from),
            fp_lines: Vec::new(),
            known,
            start: Instant::now(),
            batches: Vec::new(),
            distinct_nontrivial: HashSet::new(),
            distinct_states: HashSet::new(),
            violations: 0,
            known_seen: BTreeSet::new(),
            harness_errors: Vec::new(),
            unconfirmed: Vec::new(),
            run_timeout,
            batch_wall_cap,
            replay_done: false,
        }
    }

    pub fn count(&self, quick: u64, thorough: u64) -> u64 {
        let base = if self.tier == Tier::Quick { quick } else { thorough };
        ((base as f64 * self.scale).ceil() as u64).max(1)
    }

    pub fn harness_error(&mut self, msg: impl Into<String>) { self.harness_errors.push(msg.into()) }

    fn is_known(&self, signature: &str) -> Option<&KnownFinding> {
        self.known
            .iter()
            .find(|k| k.property == self.property && k.status == "known" && k.signature == signature)
    }

    fn replay_dir(&self) -> PathBuf { self.root.join("replays") }

    /// Run `count` seeded runs of the scenario (or replay a file that names it).
    pub fn run_batch<S: Scenario>(&mut self, s: &S, count: u64) {
        if let Some(path) = self.replay.clone() {
            self.do_replay(s, &path);
            return;
        }
        if let Some(b) = &self.only_batch {
            if b != s.name() {
                return;
            }
        }
        if self.isolate {
            self.isolate_batch(s, count);
            return;
        }
        let t0 = Instant::now();
        let (lo, hi) = match self.range {
            Some((a, b)) => (a.min(count), b.min(count)),
            None => (0, count),
        };
        let raw = if self.proc_parallel && self.range.is_none() && self.child_stats.is_none() && self.workers > 1 && count >= 64 {
            match self.run_in_children(s, count) {
                Some(r) => r,
                None => {
                    // a child died: find the run that kills the process
                    self.isolate_batch(s, count);
                    return;
                }
            }
        } else {
            self.run_range(s, lo, hi)
        };
        if self.child_stats.is_some() {
            self.child_raw.push((s.name().to_string(), raw));
            return;
        }
        let seed = self.seed;
        let tier = self.tier;
        let mut rep = BatchReport {
            name: s.name().to_string(),
            planned: count,
            runs: raw.runs,
            ops: raw.ops,
            time: raw.time,
            nontrivial: raw.nontrivial,
            digest: raw.digest,
            faults: raw.faults,
            probes: raw.probes,
            ..Default::default()
        };
        self.distinct_nontrivial.extend(raw.distinct);
        self.distinct_states.extend(raw.states);
        let mut viols = raw.viol;
        let mut fps = raw.fps;
        rep.truncated = rep.runs < hi - lo;
        viols.sort_by_key(|(i, _)| *i);
        if self.fp_out.is_some() {
            fps.sort();
            for (i, fp) in fps {
                self.fp_lines.push(format!("{} {} {:016x}", s.name(), i, fp));
            }
        }
        // samples: the first three plans of the batch
        for i in 0..count.min(3) {
            let rs = run_seed(seed, &self.property, s.name(), i);
            let plan = s.generate(&mut Rng::new(rs), tier);
            rep.samples.push(json!({"batch": s.name(), "run_index": i, "plan": truncate_json(serde_json::to_value(&plan).unwrap_or(Value::Null), 40)}));
        }
        rep.violations = viols.len() as u64;
        if std::env::var("VERIF_LIST_SIGNATURES").is_ok() {
            // triage aid: histogram of violation signatures (before minimisation)
            let mut h: BTreeMap<String, (u64, u64)> = BTreeMap::new();
            for (i, v) in &viols {
                let e = h.entry(v.signature.clone()).or_insert((0, *i));
                e.0 += 1;
            }
            for (sig, (n, first)) in h {
                eprintln!("SIGNATURE {:>8}  first_run={:<9} {}", n, first, sig);
            }
        }
        // Report: one minimised replay per distinct signature (first occurrence), at most 8.
        let mut seen_sig: BTreeSet<String> = BTreeSet::new();
        let mut minimised = 0;
        for (i, v) in viols {
            if seen_sig.contains(&v.signature) {
                continue;
            }
            if minimised >= 8 {
                break;
            }
            let rs = run_seed(seed, &self.property, s.name(), i);
            let plan = s.generate(&mut Rng::new(rs), tier);
            let (mplan, mv) = minimise(s, plan, v.clone());
            seen_sig.insert(v.signature.clone());
            seen_sig.insert(mv.signature.clone());
            minimised += 1;
            self.report(s, i, &mplan, &mv);
        }
        rep.wall_s = t0.elapsed().as_secs_f64();
        self.batches.push(rep);
    }

    /// Process-level parallelism: one single-threaded child per slice of run
    /// indices (used by engines whose code under test contends on the
    /// process-wide address space, e.g. 32 MiB linear memories per run).
    fn run_in_children<S: Scenario>(&mut self, s: &S, count: u64) -> Option<RawBatch> {
        let exe = std::env::current_exe().ok()?;
        let n = (self.workers as u64).min(count);
        let tmp = std::env::temp_dir().join(format!("verif-{}-{}-{}", self.property, s.name(), std::process::id()));
        let _ = std::fs::create_dir_all(&tmp);
        let mut children = Vec::new();
        for w in 0..n {
            let lo = count * w / n;
            let hi = count * (w + 1) / n;
            let stats = tmp.join(format!("part{}.json", w));
            let child = std::process::Command::new(&exe)
                .args(["--property", &self.property, "--tier", self.tier.as_str(), "--seed", &self.seed.to_string()])
                .args(["--batch", s.name(), "--range", &lo.to_string(), &hi.to_string(), "--no-evidence", "--workers", "1"])
                .args(if self.fp_out.is_some() { vec!["--child-fps"] } else { vec![] })
                .arg("--child-stats")
                .arg(&stats)
                .arg("--root")
                .arg(&self.root)
                .env("VERIF_NO_REPLAY_CONFIRM", "1")
                .env("VERIF_SCALE", self.scale.to_string())
                .stdout(std::process::Stdio::null())
                .stderr(std::process::Stdio::inherit())
                .spawn();
            match child {
                Ok(c) => children.push((c, stats)),
                Err(e) => {
                    self.harness_error(format!("cannot spawn worker process: {}", e));
                    return Some(RawBatch::default());
                }
            }
        }
        let mut total = RawBatch::default();
        let mut died = false;
        for (mut c, stats) in children {
            let st = c.wait();
            match st {
                Ok(st) if st.code() == Some(0) => {
                    let parts: Vec<(String, RawBatch)> = std::fs::read_to_string(&stats)
                        .ok()
                        .and_then(|t| serde_json::from_str(&t).ok())
                        .unwrap_or_default();
                    for (name, r) in parts {
                        if name == s.name() {
                            total.merge(r);
                        }
                    }
                }
                Ok(st) if st.code() == Some(1) => {
                    // the hang watchdog of a child reported a violation itself
                    self.violations += 1;
                }
                Ok(st) if st.code() == Some(2) => self.harness_error("a worker process reported a harness error"),
                _ => died = true,
            }
        }
        let _ = std::fs::remove_dir_all(&tmp);
        if died {
            None
        } else {
            Some(total)
        }
    }

    /// Run the indices `lo..hi` in this process on `self.workers` threads.
    fn run_range<S: Scenario>(&mut self, s: &S, lo: u64, hi: u64) -> RawBatch {
        let t0 = Instant::now();
        let next = AtomicU64::new(lo);
        let stop = AtomicBool::new(false);
        let workers = self.workers.min((hi - lo) as usize).max(1);
        let tier = self.tier;
        let seed = self.seed;
        let property = self.property.clone();
        let want_fp = self.fp_out.is_some() || self.child_stats.is_some() && self.want_child_fps;
        let wall_cap = self.batch_wall_cap;
        let run_timeout = self.run_timeout;
        let root_dir = self.root.clone();
        let count = hi;

        // watchdog slots: (start ms since t0 + 1, run index); 0 = idle
        let slots: Vec<(AtomicU64, AtomicU64)> =
            (0..workers).map(|_| (AtomicU64::new(0), AtomicU64::new(0))).collect();
        let done = AtomicBool::new(false);

        let outs: Vec<RawBatch> = std::thread::scope(|scope| {
            // watchdog
            scope.spawn(|| {
                while !done.load(Ordering::Relaxed) {
                    std::thread::sleep(Duration::from_millis(200));
                    let now = t0.elapsed().as_millis() as u64 + 1;
                    for (st, idx) in slots.iter() {
                        let s0 = st.load(Ordering::Relaxed);
                        if s0 != 0 && now.saturating_sub(s0) > run_timeout.as_millis() as u64 {
                            let i = idx.load(Ordering::Relaxed);
                            // A hung run cannot be cancelled; report and leave.
                            let rs = run_seed(seed, &property, s.name(), i);
                            let plan = s.generate(&mut Rng::new(rs), tier);
                            let v = Violation::new(
                                "termination",
                                "termination",
                                format!("run did not finish within {:?}", run_timeout),
                                0,
                            );
                            let dir = root_dir.join("replays");
                            let _ = std::fs::create_dir_all(&dir);
                            let path = dir.join(format!("{}-{}-{}-hang.json", property, s.name(), i));
                            let rf = ReplayFile {
                                property: property.clone(),
                                engine: String::new(),
                                batch: s.name().to_string(),
                                oracle: v.oracle.clone(),
                                signature: v.signature.clone(),
                                seed,
                                run_index: i,
                                detail: v.detail.clone(),
                                step: 0,
                                plan: serde_json::to_value(&plan).unwrap_or(Value::Null),
                            };
                            let _ = std::fs::write(&path, serde_json::to_string_pretty(&rf).unwrap());
                            println!("VIOLATION property={} replay={}", property, path.display());
                            eprintln!("VIOLATION property={} replay={} (run did not finish)", property, path.display());
                            std::process::exit(1);
                        }
                    }
                }
            });
            let handles: Vec<_> = (0..workers)
                .map(|w| {
                    let next = &next;
                    let stop = &stop;
                    let slots = &slots;
                    let property = &property;
                    scope.spawn(move || {
                        let mut out = RawBatch::default();
                        let mut distinct: HashSet<u64> = HashSet::new();
                        let mut states: HashSet<u64> = HashSet::new();
                        loop {
                            if stop.load(Ordering::Relaxed) {
                                break;
                            }
                            let i = next.fetch_add(1, Ordering::Relaxed);
                            if i >= count {
                                break;
                            }
                            if (i & 0x3f) == 0 && t0.elapsed() > wall_cap {
                                stop.store(true, Ordering::Relaxed);
                            }
                            let rs = run_seed(seed, property, s.name(), i);
                            let mut rng = Rng::new(rs);
                            let plan = s.generate(&mut rng, tier);
                            slots[w].1.store(i, Ordering::Relaxed);
                            slots[w].0.store(t0.elapsed().as_millis() as u64 + 1, Ordering::Relaxed);
                            let mut rec = Recorder::new();
                            let v = guarded_execute(s, &plan, &mut rec);
                            slots[w].0.store(0, Ordering::Relaxed);
                            out.runs += 1;
                            out.ops += rec.ops;
                            out.time += rec.time;
                            let fp = rec.fingerprint();
                            let mut mix = fp ^ i.wrapping_mul(0x9E37_79B9_7F4A_7C15);
                            out.digest = out.digest.wrapping_add(crate::rng::splitmix64(&mut mix));
                            if want_fp {
                                out.fps.push((i, fp));
                            }
                            if rec.nontrivial {
                                out.nontrivial += 1;
                                distinct.insert(fp);
                            }
                            for (k, n) in rec.faults {
                                *out.faults.entry(k.to_string()).or_insert(0) += n;
                            }
                            for (k, n) in rec.probes {
                                *out.probes.entry(k.to_string()).or_insert(0) += n;
                            }
                            for sg in rec.state_sigs {
                                states.insert(sg);
                            }
                            if let Some(v) = v {
                                out.viol.push((i, v));
                            }
                        }
                        out.distinct = distinct.into_iter().collect();
                        out.states = states.into_iter().collect();
                        out
                    })
                })
                .collect();
            let outs: Vec<RawBatch> = handles.into_iter().map(|h| h.join().expect("worker")).collect();
            done.store(true, Ordering::Relaxed);
            outs
        });
        let mut total = RawBatch::default();
        for o in outs {
            total.merge(o);
        }
        total
    }

    /// The process died while running this batch in-process (abort, stack
    /// overflow, kill by the allocator limit): find the run that kills it by
    /// bisecting over child processes, and report it with its plan.
    fn isolate_batch<S: Scenario>(&mut self, s: &S, count: u64) {
        if let Some(b) = &self.only_batch {
            if b != s.name() {
                return;
            }
        }
        let exe = match std::env::current_exe() {
            Ok(e) => e,
            Err(_) => return,
        };
        let dies = |a: u64, b: u64, this: &Ctx| -> bool {
            let st = std::process::Command::new(&exe)
                .args(["--property", &this.property, "--tier", this.tier.as_str(), "--seed", &this.seed.to_string()])
                .args(["--batch", s.name(), "--range", &a.to_string(), &b.to_string(), "--no-evidence"])
                .arg("--root")
                .arg(&this.root)
                .env("VERIF_NO_REPLAY_CONFIRM", "1")
                .stdout(std::process::Stdio::null())
                .stderr(std::process::Stdio::null())
                .status();
            match st {
                Ok(st) => !matches!(st.code(), Some(0) | Some(1) | Some(2)),
                Err(_) => false,
            }
        };
        if !dies(0, count, self) {
            return;
        }
        let (mut lo, mut hi) = (0u64, count);
        while hi - lo > 1 {
            let mid = lo + (hi - lo) / 2;
            if dies(lo, mid, self) {
                hi = mid;
            } else {
                lo = mid;
            }
        }
        let rs = run_seed(self.seed, &self.property, s.name(), lo);
        let plan = s.generate(&mut Rng::new(rs), self.tier);
        let v = Violation::new(
            "abort",
            "abort",
            "the process executing this plan dies (abort / non-unwinding panic / stack overflow / allocation failure)",
            0,
        );
        let dir = self.replay_dir();
        let _ = std::fs::create_dir_all(&dir);
        let path = dir.join(format!("{}-{}-{}-abort.json", self.property, s.name(), lo));
        let rf = ReplayFile {
            property:  self.property.clone(),
            engine:    self.engine.clone(),
            batch:     s.name().to_string(),
            oracle:    v.oracle.clone(),
            signature: v.signature.clone(),
            seed:      self.seed,
            run_index: lo,
            detail:    v.detail.clone(),
            step:      0,
            plan:      serde_json::to_value(&plan).unwrap_or(Value::Null),
        };
        let _ = std::fs::write(&path, serde_json::to_string_pretty(&rf).unwrap());
        self.violations += 1;
        println!("VIOLATION property={} replay={}", self.property, path.display());
        println!("  oracle=abort batch={} run_index={}", s.name(), lo);
    }

    fn report<S: Scenario>(&mut self, s: &S, index: u64, plan: &S::Plan, v: &Violation) {
        if v.oracle == "harness" {
            // the simulator's own self-checks (e.g. a generated module rejected by the
            // validator) are harness errors, never violations
            self.harness_error(format!("batch {} run {}: {}", s.name(), index, v.detail));
            if let Ok(d) = std::env::var("VERIF_DUMP_HARNESS_PLANS") {
                // debugging aid: keep the plan of a failed self-check
                let _ = std::fs::create_dir_all(&d);
                let _ = std::fs::write(
                    std::path::Path::new(&d).join(format!("{}-{}-{}.json", self.property, s.name(), index)),
                    serde_json::to_string_pretty(&serde_json::to_value(plan).unwrap_or(Value::Null)).unwrap_or_default(),
                );
            }
            return;
        }
        if let Some(k) = self.is_known(&v.signature) {
            let line = format!("KNOWN-FINDING: property={} {} [{}]", self.property, k.what, v.signature);
            if self.known_seen.insert(v.signature.clone()) {
                println!("{}", line);
            }
            return;
        }
        let dir = self.replay_dir();
        let _ = std::fs::create_dir_all(&dir);
        let path = dir.join(format!("{}-{}-{}.json", self.property, s.name(), index));
        let rf = ReplayFile {
            property:  self.property.clone(),
            engine:    self.engine.clone(),
            batch:     s.name().to_string(),
            oracle:    v.oracle.clone(),
            signature: v.signature.clone(),
            seed:      self.seed,
            run_index: index,
            detail:    v.detail.clone(),
            step:      v.step,
            plan:      serde_json::to_value(plan).unwrap_or(Value::Null),
        };
        if let Err(e) = std::fs::write(&path, serde_json::to_string_pretty(&rf).unwrap()) {
            self.harness_error(format!("cannot write replay {}: {}", path.display(), e));
        }
        // Confirm in a fresh process that the replay file reproduces.
        if std::env::var("VERIF_NO_REPLAY_CONFIRM").is_err() {
            if let Ok(exe) = std::env::current_exe() {
                let st = std::process::Command::new(exe)
                    .args(["--property", &self.property, "--replay"])
                    .arg(&path)
                    .args(["--root"])
                    .arg(&self.root)
                    .env("VERIF_NO_REPLAY_CONFIRM", "1")
                    .stdout(std::process::Stdio::null())
                    .stderr(std::process::Stdio::null())
                    .status();
                match st {
                    Ok(st) if st.code() == Some(1) => {}
                    other => {
                        // Not reported as a violation. If nothing else is found either, this is a
                        // harness error (a check must not raise alarms it cannot reproduce); next to
                        // confirmed violations it is only noted.
                        self.unconfirmed.push(format!(
                            "replay of {} ({}) in a fresh process did not reproduce (status {:?})",
                            path.display(),
                            v.signature,
                            other.map(|s| s.code())
                        ));
                        return;
                    }
                }
            }
        }
        self.violations += 1;
        println!("VIOLATION property={} replay={}", self.property, path.display());
        println!("  oracle={} signature={} step={}", v.oracle, v.signature, v.step);
        println!("  {}", v.detail.replace('\n', "\n  "));
    }

    fn do_replay<S: Scenario>(&mut self, s: &S, path: &PathBuf) {
        let txt = match std::fs::read_to_string(path) {
            Ok(t) => t,
            Err(e) => {
                self.harness_error(format!("cannot read replay file: {}", e));
                return;
            }
        };
        let rf: ReplayFile = match serde_json::from_str(&txt) {
            Ok(r) => r,
            Err(e) => {
                self.harness_error(format!("cannot parse replay file: {}", e));
                return;
            }
        };
        if rf.batch != s.name() {
            return;
        }
        self.replay_done = true;
        let plan: S::Plan = match serde_json::from_value(rf.plan.clone()) {
            Ok(p) => p,
            Err(e) => {
                self.harness_error(format!("cannot parse plan in replay file: {}", e));
                return;
            }
        };
        let mut rec = Recorder::new();
        let v = guarded_execute(s, &plan, &mut rec);
        let mut rep = BatchReport {
            name: format!("replay:{}", s.name()),
            planned: 1,
            runs: 1,
            ops: rec.ops,
            ..Default::default()
        };
        rep.samples.push(json!({"replay_of": path.display().to_string()}));
        match v {
            Some(v) => {
                if let Some(k) = self.is_known(&v.signature) {
                    println!("KNOWN-FINDING: property={} {} [{}]", self.property, k.what, v.signature);
                } else {
                    self.violations += 1;
                    rep.violations = 1;
                    println!("VIOLATION property={} replay={}", self.property, path.display());
                    println!("  oracle={} signature={} step={}", v.oracle, v.signature, v.step);
                    println!("  {}", v.detail.replace('\n', "\n  "));
                }
            }
            None => println!("replay {}: no violation", path.display()),
        }
        self.batches.push(rep);
    }

    /// Write evidence and exit with the protocol's exit code.
    pub fn finish(mut self, info: EngineInfo) -> ! {
        if self.replay.is_some() {
            if !self.replay_done && self.harness_errors.is_empty() {
                self.harness_error("replay file names a batch this property does not have");
            }
            for e in &self.harness_errors {
                eprintln!("HARNESS-ERROR: {}", e);
            }
            if !self.harness_errors.is_empty() {
                std::process::exit(2);
            }
            std::process::exit(if self.violations > 0 { 1 } else { 0 });
        }
        if let Some(p) = &self.child_stats {
            let _ = std::fs::write(p, serde_json::to_string(&self.child_raw).unwrap_or_default());
            for e in &self.harness_errors {
                eprintln!("HARNESS-ERROR: {}", e);
            }
            std::process::exit(if self.harness_errors.is_empty() { 0 } else { 2 });
        }
        if let Some(p) = &self.fp_out {
            let _ = std::fs::write(p, self.fp_lines.join("\n") + "\n");
        }
        let wall = self.start.elapsed().as_secs_f64();
        let evaluations: u64 = self.batches.iter().map(|b| b.runs).sum();
        let ops: u64 = self.batches.iter().map(|b| b.ops).sum();
        let time: u64 = self.batches.iter().map(|b| b.time).sum();
        let mut faults: BTreeMap<String, u64> = BTreeMap::new();
        let mut probes: BTreeMap<String, u64> = BTreeMap::new();
        for k in info.fault_kinds {
            faults.insert(k.to_string(), 0);
        }
        for k in info.probe_names {
            probes.insert(k.to_string(), 0);
        }
        let mut samples = Vec::new();
        let mut batches = Vec::new();
        for b in &self.batches {
            for (k, n) in &b.faults {
                *faults.entry(k.clone()).or_insert(0) += n;
            }
            for (k, n) in &b.probes {
                *probes.entry(k.clone()).or_insert(0) += n;
            }
            if samples.len() < 6 {
                samples.extend(b.samples.iter().take(2).cloned());
            }
            batches.push(json!({
                "name": b.name, "runs": b.runs, "planned": b.planned, "truncated_by_wall_cap": b.truncated,
                "ops": b.ops, "logical_time": b.time, "nontrivial_runs": b.nontrivial,
                "wall_s": (b.wall_s * 1000.0).round() / 1000.0,
                "digest": format!("{:016x}", b.digest), "violations": b.violations,
            }));
        }
        if evaluations == 0 && !self.isolate && self.range.is_none() {
            self.harness_error("no runs executed");
        }
        let runs_per_hour = if wall > 0.0 { (evaluations as f64 / wall * 3600.0) as u64 } else { 0 };
        let ev = json!({
            "property_id": self.property,
            "tier": self.tier.as_str(),
            "seed": self.seed,
            "level": "exploration",
            "coverage": {
                "evaluations": evaluations,
                "distinct_nontrivial": self.distinct_nontrivial.len(),
                "rule": info.rule,
                "samples": samples,
                "explanation": info.explanation,
                "runs_per_hour": runs_per_hour,
                "ops_executed": ops,
                "logical_time": time,
                "logical_time_unit": info.time_unit,
                "faults_fired": faults,
                "probes": probes,
                "distinct_states": self.distinct_states.len(),
                "distinct_states_measure": info.state_measure,
                "batches": batches,
                "components": {"real": info.real, "stub": info.stub},
                "known_findings_seen": self.known_seen.iter().collect::<Vec<_>>(),
                "workers": self.workers,
                "exhaustive": false,
            },
            "assumptions": info.assumptions,
            "wall_s": (wall * 1000.0).round() / 1000.0,
            "violations": self.violations,
        });
        if !self.no_evidence {
            let dir = self.root.join("evidence");
            let _ = std::fs::create_dir_all(&dir);
            let args: Vec<String> = std::env::args().collect();
            let name = arg_value(&args, "--evidence-name").unwrap_or_else(|| self.property.clone());
            let mut ev = ev;
            if let Ok(p) = std::env::var("VERIF_EMBED_EVIDENCE") {
                // evidence of a companion engine run for the same property (e.g. thread mode)
                if let Ok(t) = std::fs::read_to_string(&p) {
                    if let Ok(v) = serde_json::from_str::<Value>(&t) {
                        ev["coverage"]["companion_run"] = v;
                    }
                }
            }
            let path = dir.join(format!("{}.json", name));
            if let Err(e) = std::fs::write(&path, serde_json::to_string_pretty(&ev).unwrap() + "\n") {
                self.harness_error(format!("cannot write evidence: {}", e));
            }
        }
        println!(
            "{} {}: {} runs, {} ops, {} distinct non-trivial, {} violations, {} known findings, {:.1}s",
            self.property,
            self.tier.as_str(),
            evaluations,
            ops,
            self.distinct_nontrivial.len(),
            self.violations,
            self.known_seen.len(),
            wall
        );
        if self.violations == 0 {
            let u = std::mem::take(&mut self.unconfirmed);
            self.harness_errors.extend(u);
        }
        for e in &self.unconfirmed {
            eprintln!("UNCONFIRMED: {}", e);
        }
        for e in &self.harness_errors {
            eprintln!("HARNESS-ERROR: {}", e);
        }
        if !self.harness_errors.is_empty() {
            std::process::exit(2);
        }
        std::process::exit(if self.violations > 0 { 1 } else { 0 });
    }
}

pub struct EngineInfo {
    pub rule:          String,
    pub explanation:   String,
    pub time_unit:     &'static str,
    pub state_measure: &'static str,
    pub fault_kinds:   &'static [&'static str],
    pub probe_names:   &'static [&'static str],
    pub real:          Vec<&'static str>,
    pub stub:          Vec<&'static str>,
    pub assumptions:   Vec<String>,
}

/// Keep evidence samples readable: arrays longer than `max` are cut.
pub fn truncate_json(v: Value, max: usize) -> Value {
    match v {
        Value::Array(a) => {
            let n = a.len();
            let mut out: Vec<Value> = a.into_iter().take(max).map(|x| truncate_json(x, max)).collect();
            if n > max {
                out.push(json!(format!("… {} more", n - max)));
            }
            Value::Array(out)
        }
        Value::Object(o) => Value::Object(o.into_iter().map(|(k, x)| (k, truncate_json(x, max))).collect()),
        Value::String(s) if s.len() > 200 => Value::String(format!("{}…({} chars)", &s[..200], s.len())),
        other => other,
    }
}

/// Greedy minimisation: accept the first candidate on which the same oracle
/// still fails; stop when no candidate does or the budget is used up.
pub fn minimise<S: Scenario>(s: &S, plan: S::Plan, v: Violation) -> (S::Plan, Violation) {
    let mut cur = plan;
    let mut curv = v;
    let mut execs = 0usize;
    let budget = 4000usize;
    let deadline = Instant::now() + Duration::from_secs(60);
    'outer: loop {
        let cands = s.shrink(&cur);
        for c in cands {
            if execs >= budget || Instant::now() > deadline {
                break 'outer;
            }
            execs += 1;
            let mut rec = Recorder::new();
            if let Some(v2) = guarded_execute(s, &c, &mut rec) {
                if v2.oracle == curv.oracle {
                    cur = c;
                    curv = v2;
                    continue 'outer;
                }
            }
        }
        break;
    }
    (cur, curv)
}

/// Candidate sub-sequences for delta debugging: drop halves, quarters, …,
/// single elements.
pub fn shrink_vec<T: Clone>(xs: &[T]) -> Vec<Vec<T>> {
    let n = xs.len();
    let mut out = Vec::new();
    if n == 0 {
        return out;
    }
    let mut chunk = n.div_ceil(2);
    loop {
        let mut start = 0;
        while start < n {
            let end = (start + chunk).min(n);
            let mut v = Vec::with_capacity(n - (end - start));
            v.extend_from_slice(&xs[..start]);
            v.extend_from_slice(&xs[end..]);
            out.push(v);
            start = end;
        }
        if chunk == 1 {
            break;
        }
        chunk = chunk.div_ceil(2);
        if out.len() > 600 {
            break;
        }
    }
    out
}
