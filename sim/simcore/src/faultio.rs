//! Plan-driven fault-injecting `std::io::Read` / `std::io::Write` endpoints.
//! The plan is a value (part of the replay file); the endpoints never draw
//! randomness.
use crate::rng::Rng;
use serde::{Deserialize, Serialize};
use std::io;

#[derive(Clone, Debug, Default, Serialize, Deserialize, PartialEq)]
pub struct ReadPlan {
    /// Chunk sizes handed out per `read` call, cycled. 0 = return
    /// `ErrorKind::Interrupted` for that call. Empty = unlimited.
    pub chunks: Vec<u32>,
    /// Stream ends (Ok(0)) at this offset although more bytes exist.
    pub eof_at: Option<u64>,
    /// Hard I/O error when this offset is reached.
    pub err_at: Option<u64>,
}

impl ReadPlan {
    pub fn clean() -> Self { Self::default() }

    pub fn is_clean(&self) -> bool { self.eof_at.is_none() && self.err_at.is_none() }

    /// Random chunking (and EINTR when `eintr`), no EOF / error.
    pub fn random_chunking(rng: &mut Rng, eintr: bool) -> Self {
        let n = rng.urange(0, 6);
        let mut chunks = Vec::with_capacity(n);
        for _ in 0..n {
            let c = match rng.below(10) {
                0..=3 => 1,
                4..=5 => rng.range(2, 4) as u32,
                6..=7 => rng.range(5, 64) as u32,
                8 => rng.range(65, 5000) as u32,
                _ => {
                    if eintr {
                        0
                    } else {
                        1
                    }
                }
            };
            chunks.push(c);
        }
        if chunks.iter().all(|c| *c == 0) {
            chunks.push(1);
        }
        ReadPlan {
            chunks,
            eof_at: None,
            err_at: None,
        }
    }
}

#[derive(Default, Debug, Clone, Copy)]
pub struct IoStats {
    pub calls:       u64,
    pub short:       u64,
    pub interrupted: u64,
    pub eof_fired:   bool,
    pub err_fired:   bool,
    pub full_fired:  bool,
}

pub struct SimReader<'a> {
    data:      &'a [u8],
    pos:       usize,
    plan:      &'a ReadPlan,
    idx:       usize,
    pub stats: IoStats,
}

impl<'a> SimReader<'a> {
    pub fn new(data: &'a [u8], plan: &'a ReadPlan) -> Self {
        SimReader {
            data,
            pos: 0,
            plan,
            idx: 0,
            stats: IoStats::default(),
        }
    }

    /// Bytes handed out so far.
    pub fn consumed(&self) -> usize { self.pos }
}

impl io::Read for SimReader<'_> {
    fn read(&mut self, buf: &mut [u8]) -> io::Result<usize> {
        self.stats.calls += 1;
        if buf.is_empty() {
            return Ok(0);
        }
        let mut limit = self.data.len();
        if let Some(e) = self.plan.err_at {
            if self.pos as u64 >= e {
                self.stats.err_fired = true;
                return Err(io::Error::new(io::ErrorKind::Other, "injected read error"));
            }
            limit = limit.min(e as usize);
        }
        if let Some(e) = self.plan.eof_at {
            if self.pos as u64 >= e {
                self.stats.eof_fired = true;
                return Ok(0);
            }
            limit = limit.min(e as usize);
        }
        let mut n = buf.len().min(limit.saturating_sub(self.pos));
        if !self.plan.chunks.is_empty() {
            let c = self.plan.chunks[self.idx % self.plan.chunks.len()];
            self.idx += 1;
            if c == 0 {
                self.stats.interrupted += 1;
                return Err(io::Error::new(io::ErrorKind::Interrupted, "injected EINTR"));
            }
            if (c as usize) < n {
                n = c as usize;
                self.stats.short += 1;
            }
        }
        buf[..n].copy_from_slice(&self.data[self.pos..self.pos + n]);
        self.pos += n;
        Ok(n)
    }
}

#[derive(Clone, Debug, Default, Serialize, Deserialize, PartialEq)]
pub struct WritePlan {
    /// Bytes accepted per `write` call, cycled. 0 = `Interrupted`. Empty = all.
    pub chunks:  Vec<u32>,
    /// The sink is full at this offset: `write` returns Ok(0) from then on.
    pub full_at: Option<u64>,
    /// Hard I/O error when this offset is reached.
    pub err_at:  Option<u64>,
}

impl WritePlan {
    pub fn clean() -> Self { Self::default() }

    pub fn is_clean(&self) -> bool { self.full_at.is_none() && self.err_at.is_none() }

    pub fn random_chunking(rng: &mut Rng, eintr: bool) -> Self {
        let rp = ReadPlan::random_chunking(rng, eintr);
        WritePlan {
            chunks:  rp.chunks,
            full_at: None,
            err_at:  None,
        }
    }
}

pub struct SimWriter<'a> {
    pub out:   Vec<u8>,
    plan:      &'a WritePlan,
    idx:       usize,
    pub stats: IoStats,
}

impl<'a> SimWriter<'a> {
    pub fn new(plan: &'a WritePlan) -> Self {
        SimWriter {
            out: Vec::new(),
            plan,
            idx: 0,
            stats: IoStats::default(),
        }
    }
}

impl io::Write for SimWriter<'_> {
    fn write(&mut self, buf: &[u8]) -> io::Result<usize> {
        self.stats.calls += 1;
        if buf.is_empty() {
            return Ok(0);
        }
        let pos = self.out.len() as u64;
        let mut n = buf.len();
        if let Some(e) = self.plan.err_at {
            if pos >= e {
                self.stats.err_fired = true;
                return Err(io::Error::new(io::ErrorKind::Other, "injected write error"));
            }
            n = n.min((e - pos) as usize);
        }
        if let Some(e) = self.plan.full_at {
            if pos >= e {
                self.stats.full_fired = true;
                return Ok(0);
            }
            n = n.min((e - pos) as usize);
        }
        if !self.plan.chunks.is_empty() {
            let c = self.plan.chunks[self.idx % self.plan.chunks.len()];
            self.idx += 1;
            if c == 0 {
                self.stats.interrupted += 1;
                return Err(io::Error::new(io::ErrorKind::Interrupted, "injected EINTR"));
            }
            if (c as usize) < n {
                n = c as usize;
                self.stats.short += 1;
            }
        }
        self.out.extend_from_slice(&buf[..n]);
        Ok(n)
    }

    fn flush(&mut self) -> io::Result<()> { Ok(()) }
}
