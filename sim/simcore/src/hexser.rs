//! serde helpers: byte strings as lower-case hex in replay files.
use serde::{Deserialize, Deserializer, Serializer};

pub mod bytes {
    use super::*;
    pub fn serialize<S: Serializer>(v: &Vec<u8>, s: S) -> Result<S::Ok, S::Error> {
        s.serialize_str(&hex::encode(v))
    }
    pub fn deserialize<'de, D: Deserializer<'de>>(d: D) -> Result<Vec<u8>, D::Error> {
        let s = String::deserialize(d)?;
        hex::decode(s).map_err(serde::de::Error::custom)
    }
}

pub mod pairs {
    use super::*;
    use serde::ser::SerializeSeq;
    pub fn serialize<S: Serializer>(v: &Vec<(Vec<u8>, Vec<u8>)>, s: S) -> Result<S::Ok, S::Error> {
        let mut seq = s.serialize_seq(Some(v.len()))?;
        for (k, x) in v {
            seq.serialize_element(&(hex::encode(k), hex::encode(x)))?;
        }
        seq.end()
    }
    pub fn deserialize<'de, D: Deserializer<'de>>(d: D) -> Result<Vec<(Vec<u8>, Vec<u8>)>, D::Error> {
        let v: Vec<(String, String)> = Vec::deserialize(d)?;
        v.into_iter()
            .map(|(a, b)| {
                Ok((
                    hex::decode(a).map_err(serde::de::Error::custom)?,
                    hex::decode(b).map_err(serde::de::Error::custom)?,
                ))
            })
            .collect()
    }
}
