//! Shared core of the deterministic simulators in /verif/sim.
pub mod alloc;
pub mod driver;
pub mod faultio;
pub mod hexser;
pub mod rng;

pub use driver::{Ctx, EngineInfo, Recorder, Scenario, Tier, Violation};
pub use rng::Rng;
