//! The only source of randomness of the simulator: xoshiro256** seeded through
//! splitmix64. No wall clock, no `thread_rng`, no `RandomState`.

#[inline]
pub fn splitmix64(state: &mut u64) -> u64 {
    *state = state.wrapping_add(0x9E37_79B9_7F4A_7C15);
    let mut z = *state;
    z = (z ^ (z >> 30)).wrapping_mul(0xBF58_476D_1CE4_E5B9);
    z = (z ^ (z >> 27)).wrapping_mul(0x94D0_49BB_1331_11EB);
    z ^ (z >> 31)
}

pub fn fnv1a(s: &str) -> u64 {
    let mut h: u64 = 0xcbf2_9ce4_8422_2325;
    for b in s.bytes() {
        h ^= b as u64;
        h = h.wrapping_mul(0x0000_0100_0000_01B3);
    }
    h
}

/// Seed of run `index` of batch `batch` of property `property`.
pub fn run_seed(verif_seed: u64, property: &str, batch: &str, index: u64) -> u64 {
    let mut s = verif_seed ^ fnv1a(property) ^ fnv1a(batch).rotate_left(17);
    let a = splitmix64(&mut s);
    let mut t = a ^ index.wrapping_mul(0xD6E8_FEB8_6659_FD93);
    splitmix64(&mut t)
}

#[derive(Clone, Debug)]
pub struct Rng {
    s: [u64; 4],
}

impl Rng {
    pub fn new(seed: u64) -> Self {
        let mut sm = seed;
        let s = [
            splitmix64(&mut sm),
            splitmix64(&mut sm),
            splitmix64(&mut sm),
            splitmix64(&mut sm),
        ];
        Rng { s }
    }

    #[inline]
    pub fn next_u64(&mut self) -> u64 {
        let result = self.s[1].wrapping_mul(5).rotate_left(7).wrapping_mul(9);
        let t = self.s[1] << 17;
        self.s[2] ^= self.s[0];
        self.s[3] ^= self.s[1];
        self.s[1] ^= self.s[2];
        self.s[0] ^= self.s[3];
        self.s[2] ^= t;
        self.s[3] = self.s[3].rotate_left(45);
        result
    }

    #[inline]
    pub fn next_u32(&mut self) -> u32 { (self.next_u64() >> 32) as u32 }

    /// Uniform in `0..n` (n > 0).
    #[inline]
    pub fn below(&mut self, n: u64) -> u64 {
        debug_assert!(n > 0);
        // multiply-shift; bias is negligible for the sizes used here
        ((self.next_u64() as u128 * n as u128) >> 64) as u64
    }

    #[inline]
    pub fn usize_below(&mut self, n: usize) -> usize { self.below(n as u64) as usize }

    /// Uniform in `lo..=hi`.
    #[inline]
    pub fn range(&mut self, lo: u64, hi: u64) -> u64 {
        debug_assert!(lo <= hi);
        if lo == 0 && hi == u64::MAX {
            return self.next_u64();
        }
        lo + self.below(hi - lo + 1)
    }

    #[inline]
    pub fn urange(&mut self, lo: usize, hi: usize) -> usize { self.range(lo as u64, hi as u64) as usize }

    /// True with probability `num/den`.
    #[inline]
    pub fn chance(&mut self, num: u64, den: u64) -> bool { self.below(den) < num }

    #[inline]
    pub fn coin(&mut self) -> bool { self.next_u64() & 1 == 1 }

    pub fn pick<'a, T>(&mut self, xs: &'a [T]) -> &'a T { &xs[self.usize_below(xs.len())] }

    pub fn bytes(&mut self, n: usize) -> Vec<u8> {
        let mut v = Vec::with_capacity(n);
        while v.len() < n {
            let x = self.next_u64().to_le_bytes();
            let take = (n - v.len()).min(8);
            v.extend_from_slice(&x[..take]);
        }
        v
    }

    /// Weighted choice: returns index i with probability w[i]/sum(w).
    pub fn weighted(&mut self, w: &[u32]) -> usize {
        let total: u64 = w.iter().map(|x| *x as u64).sum();
        debug_assert!(total > 0);
        let mut x = self.below(total);
        for (i, wi) in w.iter().enumerate() {
            if x < *wi as u64 {
                return i;
            }
            x -= *wi as u64;
        }
        w.len() - 1
    }

    pub fn shuffle<T>(&mut self, xs: &mut [T]) {
        for i in (1..xs.len()).rev() {
            let j = self.usize_below(i + 1);
            xs.swap(i, j);
        }
    }

    /// Derive an independent child generator.
    pub fn fork(&mut self) -> Rng { Rng::new(self.next_u64()) }
}
