//! Subjects for C17: the CBOR codec (`common::cbor`) and the protocol-level
//! token types.
use codeccore::{cbor_subject, Subject};
use concordium_base::{
    common::{
        cbor::{self, value::Value, Bytes, DecimalFraction, UnsignedDecimalFraction},
        upward::CborUpward,
    },
    contracts_common::AccountAddress,
    protocol_level_tokens as plt,
    transactions::Memo,
};
use simcore::Rng;
use std::collections::HashMap;

fn g_u64(rng: &mut Rng) -> u64 {
    // every CBOR integer width boundary
    match rng.below(16) {
        0 => 0,
        1 => 23,
        2 => 24,
        3 => 255,
        4 => 256,
        5 => 65535,
        6 => 65536,
        7 => u32::MAX as u64,
        8 => u32::MAX as u64 + 1,
        9 => u64::MAX,
        10 => i64::MAX as u64,
        11 => i64::MAX as u64 + 1,
        12 => rng.below(24),
        _ => rng.next_u64() >> rng.below(64),
    }
}
fn g_i64(rng: &mut Rng) -> i64 {
    match rng.below(8) {
        0 => i64::MIN,
        1 => i64::MAX,
        2 => -1,
        3 => -24,
        4 => -25,
        5 => -256,
        6 => -257,
        _ => g_u64(rng) as i64,
    }
}
fn g_len(rng: &mut Rng) -> usize {
    match rng.below(8) {
        0 => 0,
        1 => 1,
        2 => rng.urange(23, 25),
        3 => rng.urange(255, 257),
        _ => rng.urange(0, 10),
    }
}
/// Text around the decoder's 4096-byte chunk size: ASCII filler, then a 2-4 byte character that
/// starts 0..len bytes before a multiple of 4096 (so that it may straddle the chunk boundary).
fn g_long_string(rng: &mut Rng) -> String {
    let k = rng.urange(1, 2) * 4096;
    let ch = *rng.pick(&['é', '€', '𝄞', 'z']);
    let before = k - rng.urange(0, ch.len_utf8());
    let mut s = "a".repeat(before);
    s.push(ch);
    let tail = rng.urange(0, 50);
    s.extend((0..tail).map(|i| if i % 7 == 3 { 'é' } else { 'b' }));
    s
}
fn g_string(rng: &mut Rng) -> String {
    if rng.chance(1, 40) {
        return g_long_string(rng);
    }
    let n = g_len(rng);
    (0..n)
        .map(|_| match rng.below(10) {
            0 => 'é',
            1 => '€',
            2 => '𝄞',
            _ => (b'a' + rng.below(26) as u8) as char,
        })
        .collect()
}
fn g_key(rng: &mut Rng) -> String {
    let n = rng.urange(1, 6);
    (0..n).map(|_| (b'a' + rng.below(26) as u8) as char).collect()
}
fn g_bytes(rng: &mut Rng) -> Vec<u8> {
    let n = if rng.chance(1, 40) { rng.urange(1, 2) * 4096 + rng.urange(0, 2) - 1 } else { g_len(rng) };
    rng.bytes(n)
}
fn g_f64(rng: &mut Rng) -> f64 {
    match rng.below(8) {
        0 => 0.0,
        1 => -0.0,
        2 => 1.5,
        3 => f64::INFINITY,
        4 => f64::MAX,
        5 => f64::MIN_POSITIVE,
        6 => (rng.next_u32() as f64) / 7.0,
        _ => {
            let f = f64::from_bits(rng.next_u64());
            if f.is_nan() {
                1.0
            } else {
                f
            }
        }
    }
}

/// A value of the generic CBOR data model, with map entries in the encoder's
/// (deterministic) order and without NaN so that typed equality is meaningful.
fn g_value(rng: &mut Rng, depth: u32) -> Value {
    let k = if depth >= 5 { rng.below(8) } else { rng.below(12) };
    match k {
        0 => Value::Positive(g_u64(rng)),
        1 => Value::Negative(g_u64(rng)),
        2 => Value::Bytes(Bytes(g_bytes(rng))),
        3 => Value::Text(g_string(rng)),
        4 => Value::Bool(rng.coin()),
        5 => Value::Null,
        6 => Value::Float(g_f64(rng)),
        7 => Value::Simple(*rng.pick(&[0u8, 16, 19, 23, 32, 255])),
        8 => {
            let n = rng.urange(0, 4);
            Value::Array((0..n).map(|_| g_value(rng, depth + 1)).collect())
        }
        9 | 10 => {
            let n = rng.urange(0, 4);
            let mut entries: Vec<(Value, Value)> = Vec::new();
            let mut seen: Vec<Vec<u8>> = Vec::new();
            for _ in 0..n {
                let key = match rng.below(3) {
                    0 => Value::Positive(g_u64(rng)),
                    1 => Value::Text(g_key(rng)),
                    _ => Value::Bytes(Bytes(rng.bytes(2))),
                };
                let kb = cbor::cbor_encode(&key).expect("key encodes");
                if seen.contains(&kb) {
                    continue;
                }
                seen.push(kb);
                entries.push((key, g_value(rng, depth + 1)));
            }
            // the encoder writes entries in byte-wise order of (key ‖ value)
            entries.sort_by_key(|(k, v)| {
                let mut b = cbor::cbor_encode(k).expect("key encodes");
                b.extend(cbor::cbor_encode(v).expect("value encodes"));
                b
            });
            Value::Map(entries)
        }
        _ => Value::Tag(*rng.pick(&[0u64, 4, 24, 40307, 40305, 1 << 40]), Box::new(g_value(rng, depth + 1))),
    }
}

/// Deep nesting (up to the claimed depth bound of 64).
fn g_deep_value(rng: &mut Rng) -> Value {
    let depth = *rng.pick(&[1usize, 8, 31, 32, 33, 60, 62]);
    let mut v = Value::Positive(rng.below(24));
    for i in 0..depth {
        v = match (i + rng.usize_below(3)) % 3 {
            0 => Value::Array(vec![v]),
            1 => Value::Tag(24, Box::new(v)),
            _ => Value::Map(vec![(Value::Positive(1), v)]),
        };
    }
    v
}

fn g_account(rng: &mut Rng) -> AccountAddress {
    let b = rng.bytes(32);
    let mut a = [0u8; 32];
    a.copy_from_slice(&b);
    AccountAddress(a)
}
fn g_token_amount(rng: &mut Rng) -> plt::TokenAmount {
    plt::TokenAmount::from_raw(g_u64(rng), *rng.pick(&[0u8, 1, 2, 6, 18, 255]))
}
fn g_holder(rng: &mut Rng) -> plt::CborHolderAccount {
    plt::CborHolderAccount {
        coin_info: if rng.coin() { Some(plt::CoinInfo::CCD) } else { None },
        address:   g_account(rng),
    }
}
fn g_memo(rng: &mut Rng) -> Memo {
    let n = *rng.pick(&[0usize, 1, 4, 255, 256]);
    Memo::try_from(rng.bytes(n)).expect("memo <= 256 bytes")
}
fn g_cbor_memo(rng: &mut Rng) -> plt::CborMemo {
    if rng.coin() {
        plt::CborMemo::Raw(g_memo(rng))
    } else {
        plt::CborMemo::Cbor(g_memo(rng))
    }
}
fn g_additional(rng: &mut Rng) -> HashMap<String, Value> {
    let n = match rng.below(4) {
        0 | 1 => 0,
        2 => 1,
        _ => rng.urange(2, 6),
    };
    let mut m = HashMap::new();
    for _ in 0..n {
        // keys that cannot collide with the declared field names (those are camelCase words);
        // some share a long prefix so that their encodings agree in the first bytes
        let k = if rng.chance(1, 3) { format!("_{}", g_prefixed_key(rng)) } else { format!("_{}", g_key(rng)) };
        m.insert(k, g_value(rng, 3));
    }
    m
}
fn g_hash(rng: &mut Rng) -> concordium_base::hashes::Hash {
    let b = rng.bytes(32);
    let mut a = [0u8; 32];
    a.copy_from_slice(&b);
    concordium_base::hashes::Hash::from(a)
}
fn g_metadata_url(rng: &mut Rng) -> plt::MetadataUrl {
    plt::MetadataUrl {
        url:              g_string(rng),
        checksum_sha_256: if rng.coin() { Some(g_hash(rng)) } else { None },
        additional:       g_additional(rng),
    }
}
fn g_opt_bool(rng: &mut Rng) -> Option<bool> {
    match rng.below(3) {
        0 => None,
        1 => Some(false),
        _ => Some(true),
    }
}
fn g_operation(rng: &mut Rng) -> plt::TokenOperation {
    use plt::TokenOperation::*;
    match rng.below(9) {
        0 => Transfer(plt::TokenTransfer {
            amount:    g_token_amount(rng),
            recipient: g_holder(rng),
            memo:      if rng.coin() { Some(g_cbor_memo(rng)) } else { None },
        }),
        1 => Mint(plt::TokenSupplyUpdateDetails {
            amount: g_token_amount(rng),
        }),
        2 => Burn(plt::TokenSupplyUpdateDetails {
            amount: g_token_amount(rng),
        }),
        3 => AddAllowList(plt::TokenListUpdateDetails { target: g_holder(rng) }),
        4 => RemoveAllowList(plt::TokenListUpdateDetails { target: g_holder(rng) }),
        5 => AddDenyList(plt::TokenListUpdateDetails { target: g_holder(rng) }),
        6 => RemoveDenyList(plt::TokenListUpdateDetails { target: g_holder(rng) }),
        7 => Pause(plt::TokenPauseDetails {}),
        _ => Unpause(plt::TokenPauseDetails {}),
    }
}
fn g_operations(rng: &mut Rng) -> plt::TokenOperations {
    let n = rng.urange(0, 5);
    plt::TokenOperations {
        operations: (0..n)
            .map(|_| {
                if rng.chance(1, 6) {
                    // an operation this version does not know: preserved as a one-entry map
                    CborUpward::Unknown(Value::Map(vec![(Value::Text(format!("x{}", g_key(rng))), g_value(rng, 3))]))
                } else {
                    CborUpward::Known(g_operation(rng))
                }
            })
            .collect(),
    }
}
fn g_reject_reason(rng: &mut Rng) -> plt::TokenModuleRejectReasonType {
    use plt::TokenModuleRejectReasonType::*;
    let opt_s = |rng: &mut Rng| if rng.coin() { Some(g_string(rng)) } else { None };
    match rng.below(6) {
        0 => AddressNotFound(plt::AddressNotFoundRejectReason {
            index:   g_u64(rng) as usize,
            address: g_holder(rng),
        }),
        1 => TokenBalanceInsufficient(plt::TokenBalanceInsufficientRejectReason {
            index:             g_u64(rng) as usize,
            available_balance: g_token_amount(rng),
            required_balance:  g_token_amount(rng),
        }),
        2 => DeserializationFailure(plt::DeserializationFailureRejectReason { cause: opt_s(rng) }),
        3 => UnsupportedOperation(plt::UnsupportedOperationRejectReason {
            index:          g_u64(rng) as usize,
            operation_type: g_string(rng),
            reason:         opt_s(rng),
        }),
        4 => OperationNotPermitted(plt::OperationNotPermittedRejectReason {
            index:   g_u64(rng) as usize,
            address: if rng.coin() { Some(g_holder(rng)) } else { None },
            reason:  opt_s(rng),
        }),
        _ => MintWouldOverflow(plt::MintWouldOverflowRejectReason {
            index:                    g_u64(rng) as usize,
            requested_amount:         g_token_amount(rng),
            current_supply:           g_token_amount(rng),
            max_representable_amount: g_token_amount(rng),
        }),
    }
}

/// A byte string of `total` bytes in indefinite-length encoding: 0x5f, definite chunks, 0xff.
fn indefinite_bytes(rng: &mut Rng, total: usize) -> Vec<u8> {
    let mut out = vec![0x5f];
    let mut left = total;
    let data = rng.bytes(total);
    let mut at = 0;
    while left > 0 {
        let n = rng.urange(1, left).min(23);
        out.push(0x40 | n as u8);
        out.extend_from_slice(&data[at..at + n]);
        at += n;
        left -= n;
        if rng.chance(1, 5) {
            out.push(0x40); // an empty chunk
        }
    }
    out.push(0xff);
    out
}

/// Fixed-size byte targets fed with indefinite-length byte strings: accepted iff the chunks add
/// up to exactly the expected size.
fn crafted_fixed(size: usize, wrap_tag: Option<&'static [u8]>) -> Box<dyn Fn(u64) -> (Vec<u8>, Option<bool>) + Send + Sync> {
    Box::new(move |seed| {
        let mut rng = Rng::new(seed);
        let total = match rng.below(6) {
            0 => 0,
            1 => size - 1,
            2 => size + 1,
            3 => size / 2,
            _ => size,
        };
        let mut b = Vec::new();
        if let Some(t) = wrap_tag {
            b.extend_from_slice(t);
        }
        if rng.chance(1, 8) {
            // a text string of exactly the right length where a byte string is expected: ill-typed
            let mut t = Vec::new();
            if size < 24 {
                t.push(0x60 | size as u8);
            } else {
                t.extend_from_slice(&[0x78, size as u8]);
            }
            t.extend(std::iter::repeat(b'A').take(size));
            b.extend(t);
            return (b, Some(false));
        }
        if rng.chance(1, 6) {
            // an indefinite-length byte string: one small chunk, then a chunk that announces an
            // absurd length (and delivers nothing). Must be rejected, not crash.
            let k = rng.urange(0, size.min(4));
            b.push(0x5f);
            b.push(0x40 | k as u8);
            b.extend(rng.bytes(k));
            b.push(0x5b);
            b.extend_from_slice(&(*rng.pick(&[u64::MAX, u64::MAX - 1, 1u64 << 63, (1u64 << 32) + 5, u64::MAX - 31])).to_be_bytes());
            if rng.coin() {
                b.push(0x00);
            }
            return (b, Some(false));
        }
        b.extend(indefinite_bytes(&mut rng, total));
        (b, Some(total == size))
    })
}

/// Valid CBOR in unusual clothes for the generic data model: indefinite-length arrays, maps and
/// strings, integers in wider encodings than necessary. Only totality and stability are required.
fn crafted_value(seed: u64) -> (Vec<u8>, Option<bool>) {
    let mut rng = Rng::new(seed);
    fn item(rng: &mut Rng, depth: u32, out: &mut Vec<u8>) {
        match if depth > 4 { rng.below(4) } else { rng.below(8) } {
            0 => {
                // non-minimal unsigned integer
                let v = rng.below(24);
                match rng.below(4) {
                    0 => out.extend_from_slice(&[0x18, v as u8]),
                    1 => {
                        out.push(0x19);
                        out.extend_from_slice(&(v as u16).to_be_bytes());
                    }
                    2 => {
                        out.push(0x1a);
                        out.extend_from_slice(&(v as u32).to_be_bytes());
                    }
                    _ => {
                        out.push(0x1b);
                        out.extend_from_slice(&v.to_be_bytes());
                    }
                }
            }
            1 => {
                let n = rng.urange(0, 30);
                out.extend(indefinite_bytes(rng, n))
            }
            2 => {
                // indefinite-length text
                out.push(0x7f);
                for _ in 0..rng.urange(0, 3) {
                    out.extend_from_slice(&[0x62, b'a', b'b']);
                }
                out.push(0xff);
            }
            3 => out.push(*rng.pick(&[0xf4u8, 0xf5, 0xf6, 0x00, 0x20])),
            4 | 5 => {
                out.push(0x9f);
                for _ in 0..rng.urange(0, 3) {
                    item(rng, depth + 1, out);
                }
                out.push(0xff);
            }
            6 => {
                out.push(0xbf);
                for k in 0..rng.urange(0, 3) {
                    out.push(k as u8);
                    item(rng, depth + 1, out);
                }
                out.push(0xff);
            }
            _ => {
                out.push(0xc1);
                item(rng, depth + 1, out);
            }
        }
    }
    let mut out = Vec::new();
    item(&mut rng, 0, &mut out);
    (out, None)
}

/// Decimal fractions `4([e, m])` as a foreign encoder may produce them. A token amount is
/// `m * 10^-decimals` with `decimals` a u8: only exponents -255..=0 and unsigned mantissas up to
/// 2^64-1 denote one.
fn crafted_token_amount(seed: u64) -> (Vec<u8>, Option<bool>) {
    let mut rng = Rng::new(seed);
    fn int(v: i64, out: &mut Vec<u8>) {
        let (major, n) = if v < 0 { (0x20u8, (-1 - v) as u64) } else { (0x00u8, v as u64) };
        if n < 24 {
            out.push(major | n as u8);
        } else if n < 256 {
            out.extend_from_slice(&[major | 24, n as u8]);
        } else {
            out.push(major | 25);
            out.extend_from_slice(&(n as u16).to_be_bytes());
        }
    }
    let e = *rng.pick(&[0i64, -1, -2, -18, -23, -24, -25, -255, -256, -300, 1, 2, 3, 18, 23, 24, 255, 256]);
    let m_ok = !rng.chance(1, 8);
    let mut b = vec![0xc4, 0x82];
    int(e, &mut b);
    if m_ok {
        match rng.below(4) {
            0 => b.push(rng.below(24) as u8),
            1 => b.extend_from_slice(&[0x18, rng.range(24, 255) as u8]),
            2 => {
                b.push(0x1b);
                b.extend_from_slice(&u64::MAX.to_be_bytes());
            }
            _ => {
                b.push(0x1a);
                b.extend_from_slice(&(rng.next_u32() | 0x0100_0000).to_be_bytes());
            }
        }
    } else {
        // negative mantissa
        b.push(0x20 | rng.below(24) as u8);
    }
    (b, Some(m_ok && (-255..=0).contains(&e)))
}

/// Lists of token amounts in indefinite-length clothes. The one firm expectation: an
/// indefinite-length list whose own break is missing is ill-formed, also when its last element is
/// itself an indefinite-length array that ends in a break.
fn crafted_amount_list(seed: u64) -> (Vec<u8>, Option<bool>) {
    let mut rng = Rng::new(seed);
    let n = rng.urange(1, 3);
    let amount = |rng: &mut Rng, indefinite: bool, out: &mut Vec<u8>| {
        out.push(0xc4);
        out.push(if indefinite { 0x9f } else { 0x82 });
        out.push(0x20 | rng.below(19) as u8); // exponent -1..-19
        out.push(rng.below(24) as u8);
        if indefinite {
            out.push(0xff);
        }
    };
    if rng.chance(1, 4) {
        // a definite-length list in which a break stands where an element is announced
        let mut b = vec![0x80 | (n as u8 + 1)];
        for _ in 0..n {
            amount(&mut rng, false, &mut b);
        }
        b.push(0xff);
        return (b, Some(false));
    }
    let mut b = vec![0x9f];
    match rng.below(3) {
        0 => {
            // well-formed: definite elements, outer break present (acceptance is the decoder's choice)
            for _ in 0..n {
                amount(&mut rng, false, &mut b);
            }
            b.push(0xff);
            (b, None)
        }
        1 => {
            // outer break missing, last element indefinite: its break must not double as the list's
            for i in 0..n {
                amount(&mut rng, i + 1 == n, &mut b);
            }
            (b, Some(false))
        }
        _ => {
            // outer break missing altogether
            for _ in 0..n {
                amount(&mut rng, false, &mut b);
            }
            (b, Some(false))
        }
    }
}

/// Integers given as bignums (tag 2 = non-negative, tag 3 = -1 - n). Firm expectation: content that
/// does not fit the 64-bit target - any non-zero byte in front of the last 8 - is rejected.
fn crafted_bignum(seed: u64, signed: bool) -> (Vec<u8>, Option<bool>) {
    let mut rng = Rng::new(seed);
    let negative = signed && rng.coin();
    let len = *rng.pick(&[1usize, 8, 9, 10, 16, 17, 18, 24, 33]);
    let mut content = vec![0u8; len];
    // the low 8 bytes: small enough to fit also the signed target
    let low = rng.next_u64() >> rng.range(2, 40);
    let k = len.min(8);
    content[len - k..].copy_from_slice(&low.to_be_bytes()[8 - k..]);
    let overflow = len > 8 && rng.coin();
    if overflow {
        let at = rng.usize_below(len - 8);
        content[at] = rng.range(1, 255) as u8;
    }
    let mut b = vec![if negative { 0xc3 } else { 0xc2 }];
    if len < 24 {
        b.push(0x40 | len as u8);
    } else {
        b.extend_from_slice(&[0x58, len as u8]);
    }
    b.extend(content);
    // in range: whether leading zero bytes are tolerated is the decoder's choice
    (b, if overflow { Some(false) } else { None })
}

/// A definite-length string of the wrong major type (bytes for text, text for bytes): ill-typed.
fn crafted_wrong_string(seed: u64, want_text: bool) -> (Vec<u8>, Option<bool>) {
    let mut rng = Rng::new(seed);
    let n = rng.urange(0, 30);
    let mut b = Vec::new();
    let major = if want_text { 0x40 } else { 0x60 };
    if n < 24 {
        b.push(major | n as u8);
    } else {
        b.extend_from_slice(&[major | 24, n as u8]);
    }
    b.extend((0..n).map(|i| b'a' + (i % 26) as u8));
    (b, Some(false))
}

/// A token operation with one field this version does not know. Unknown fields are skipped: the
/// operation is accepted whatever well-formed item the field holds (also text delivered in chunks),
/// and rejected when the item is not well-formed (text that is not UTF-8).
fn crafted_unknown_field(seed: u64) -> (Vec<u8>, Option<bool>) {
    let mut rng = Rng::new(seed);
    fn text(s: &str, out: &mut Vec<u8>) {
        out.push(0x60 | s.len() as u8);
        out.extend_from_slice(s.as_bytes());
    }
    let mut b = vec![0xa1];
    text(if rng.coin() { "mint" } else { "burn" }, &mut b);
    b.push(0xa2);
    text("amount", &mut b);
    b.extend_from_slice(&[0xc4, 0x82, 0x22, 0x19, 0x30, 0x0c]);
    text("note", &mut b);
    let mut ok = true;
    let wrap = rng.below(3); // plain, inside an array, inside a map
    match wrap {
        1 => b.push(0x81),
        2 => {
            b.push(0xa1);
            text("k", &mut b);
        }
        _ => {}
    }
    match rng.below(6) {
        0 => text("hello", &mut b),
        1 => {
            // indefinite-length text in chunks
            b.push(0x7f);
            text("he", &mut b);
            text("llo", &mut b);
            b.push(0xff);
        }
        2 => {
            // a multi-byte character split across two chunks is not valid text
            b.push(0x7f);
            b.extend_from_slice(&[0x61, 0xc3]);
            b.extend_from_slice(&[0x61, 0xa9]);
            b.push(0xff);
            ok = false;
        }
        3 => {
            // definite text that is not UTF-8
            b.extend_from_slice(&[0x62, 0xc3, 0x28]);
            ok = false;
        }
        4 => {
            // indefinite byte string
            b.extend_from_slice(&[0x5f, 0x42, 1, 2, 0x41, 3, 0xff]);
        }
        _ => b.extend_from_slice(&[0x1b, 0xff, 0xff, 0xff, 0xff, 0xff, 0xff, 0xff, 0xff]),
    }
    (b, Some(ok))
}

/// Metadata URLs with entries a foreign encoder may add. Unknown *text* keys are kept in the
/// additional map; a key of another type, or a break where an entry is announced, is not acceptable.
fn crafted_metadata_url(seed: u64) -> (Vec<u8>, Option<bool>) {
    let mut rng = Rng::new(seed);
    fn text(s: &str, out: &mut Vec<u8>) {
        out.push(0x60 | s.len() as u8);
        out.extend_from_slice(s.as_bytes());
    }
    let mut b = vec![0xa2];
    text("url", &mut b);
    text("https://x", &mut b);
    match rng.below(5) {
        0 => {
            text("extra", &mut b);
            b.push(0x05);
            (b, Some(true))
        }
        1 => {
            // unsigned integer key
            b.push(rng.below(24) as u8);
            b.push(0x01);
            (b, Some(false))
        }
        2 => {
            // negative integer key
            b.push(0x20 | rng.below(24) as u8);
            b.push(0x01);
            (b, Some(false))
        }
        3 => {
            // the second entry is missing: a break stands in its place
            b.push(0xff);
            (b, Some(false))
        }
        _ => {
            // byte-string key
            b.extend_from_slice(&[0x41, 0x35]);
            b.push(0x01);
            (b, Some(false))
        }
    }
}

fn with_crafted(mut s: Subject, c: Box<dyn Fn(u64) -> (Vec<u8>, Option<bool>) + Send + Sync>) -> Subject {
    s.crafted = Some(c);
    s
}

/// Map keys sharing a long prefix (their encodings agree in the first bytes), in random insertion order.
fn g_prefixed_key(rng: &mut Rng) -> String {
    let base = *rng.pick(&["checksumSha", "additionalField", "aaaaaaaaaaaaaaaaaaaa"]);
    format!("{}{}", base, rng.below(12))
}

pub fn cbor_subjects() -> Vec<Subject> {
    let mut v: Vec<Subject> = Vec::new();
    // generic data model
    v.push(with_crafted(cbor_subject::<Value>("cbor::Value", false, |r| g_value(r, 0)), Box::new(crafted_value)));
    v.push(cbor_subject::<Value>("cbor::Value(deep)", false, g_deep_value));
    // primitives at every width boundary
    v.push(cbor_subject::<u8>("u8", false, |r| g_u64(r) as u8));
    v.push(cbor_subject::<u16>("u16", false, |r| g_u64(r) as u16));
    v.push(cbor_subject::<u32>("u32", false, |r| g_u64(r) as u32));
    v.push(with_crafted(cbor_subject::<u64>("u64", false, g_u64), Box::new(|seed| crafted_bignum(seed, false))));
    v.push(cbor_subject::<usize>("usize", false, |r| g_u64(r) as usize));
    v.push(cbor_subject::<i8>("i8", false, |r| g_i64(r) as i8));
    v.push(cbor_subject::<i16>("i16", false, |r| g_i64(r) as i16));
    v.push(cbor_subject::<i32>("i32", false, |r| g_i64(r) as i32));
    v.push(with_crafted(cbor_subject::<i64>("i64", false, g_i64), Box::new(|seed| crafted_bignum(seed, true))));
    v.push(cbor_subject::<bool>("bool", false, |r| r.coin()));
    v.push(cbor_subject::<f64>("f64", false, g_f64));
    v.push(with_crafted(cbor_subject::<String>("String", false, g_string), Box::new(|seed| crafted_wrong_string(seed, true))));
    v.push(cbor_subject::<String>("String(around the 4096-byte chunk)", false, |r| if r.chance(2, 3) { g_long_string(r) } else { g_string(r) }));
    v.push(with_crafted(cbor_subject::<Bytes>("Bytes", false, |r| Bytes(g_bytes(r))), Box::new(|seed| crafted_wrong_string(seed, false))));
    v.push(with_crafted(
        cbor_subject::<[u8; 4]>("[u8;4]", false, |r| {
            let b = r.bytes(4);
            [b[0], b[1], b[2], b[3]]
        }),
        crafted_fixed(4, None),
    ));
    v.push(cbor_subject::<HashMap<String, u32>>("HashMap<String,u32>(shared key prefixes)", false, |r| {
        let n = r.urange(0, 8);
        (0..n).map(|_| (g_prefixed_key(r), g_u64(r) as u32)).collect()
    }));
    v.push(cbor_subject::<Vec<u32>>("Vec<u32>", false, |r| {
        let n = g_len(r);
        (0..n).map(|_| g_u64(r) as u32).collect()
    }));
    v.push(cbor_subject::<Vec<String>>("Vec<String>", false, |r| {
        let n = r.urange(0, 5);
        (0..n).map(|_| g_string(r)).collect()
    }));
    v.push(cbor_subject::<Option<u32>>("Option<u32>", false, |r| if r.coin() { Some(g_u64(r) as u32) } else { None }));
    v.push(cbor_subject::<HashMap<String, u32>>("HashMap<String,u32>", false, |r| {
        let n = r.urange(0, 8);
        (0..n).map(|_| (g_key(r), g_u64(r) as u32)).collect()
    }));
    v.push(cbor_subject::<HashMap<u64, String>>("HashMap<u64,String>", false, |r| {
        let n = r.urange(0, 8);
        (0..n).map(|_| (g_u64(r), g_string(r))).collect()
    }));
    v.push(cbor_subject::<DecimalFraction>("DecimalFraction", false, |r| DecimalFraction::new(g_i64(r), g_i64(r))));
    v.push(cbor_subject::<UnsignedDecimalFraction>("UnsignedDecimalFraction", false, |r| {
        UnsignedDecimalFraction::new(g_i64(r), g_u64(r))
    }));
    v.push(with_crafted(cbor_subject::<AccountAddress>("AccountAddress", false, g_account), crafted_fixed(32, None)));
    v.push(with_crafted(cbor_subject::<concordium_base::hashes::Hash>("Hash", false, g_hash), crafted_fixed(32, None)));
    // protocol-level token types
    v.push(with_crafted(cbor_subject::<plt::TokenAmount>("TokenAmount", false, g_token_amount), Box::new(crafted_token_amount)));
    v.push(with_crafted(
        cbor_subject::<Vec<plt::TokenAmount>>("Vec<TokenAmount>", false, |r| {
            let n = r.urange(0, 4);
            (0..n).map(|_| g_token_amount(r)).collect()
        }),
        Box::new(crafted_amount_list),
    ));
    v.push(cbor_subject::<plt::CoinInfo>("CoinInfo", false, |_| plt::CoinInfo::CCD));
    v.push(cbor_subject::<plt::CborHolderAccount>("CborHolderAccount", false, g_holder));
    v.push(cbor_subject::<plt::CborHolderAccount>("CborHolderAccount(fail-unknown)", true, g_holder));
    v.push(cbor_subject::<plt::CborMemo>("CborMemo", false, g_cbor_memo));
    v.push(with_crafted(cbor_subject::<plt::TokenOperation>("TokenOperation", false, g_operation), Box::new(crafted_unknown_field)));
    v.push(cbor_subject::<plt::TokenOperation>("TokenOperation(fail-unknown)", true, g_operation));
    v.push(cbor_subject::<plt::TokenOperations>("TokenOperations", false, g_operations));
    v.push(cbor_subject::<plt::TokenTransfer>("TokenTransfer", false, |r| plt::TokenTransfer {
        amount:    g_token_amount(r),
        recipient: g_holder(r),
        memo:      if r.coin() { Some(g_cbor_memo(r)) } else { None },
    }));
    v.push(cbor_subject::<plt::TokenListUpdateEventDetails>("TokenListUpdateEventDetails", false, |r| {
        plt::TokenListUpdateEventDetails { target: g_holder(r) }
    }));
    v.push(cbor_subject::<plt::TokenPauseEventDetails>("TokenPauseEventDetails", false, |_| plt::TokenPauseEventDetails {}));
    v.push(with_crafted(cbor_subject::<plt::MetadataUrl>("MetadataUrl", false, g_metadata_url), Box::new(crafted_metadata_url)));
    v.push(cbor_subject::<plt::TokenModuleState>("TokenModuleState", false, |r| plt::TokenModuleState {
        name:               if r.coin() { Some(g_string(r)) } else { None },
        metadata:           if r.coin() { Some(g_metadata_url(r)) } else { None },
        governance_account: if r.coin() { Some(g_holder(r)) } else { None },
        allow_list:         g_opt_bool(r),
        deny_list:          g_opt_bool(r),
        mintable:           g_opt_bool(r),
        burnable:           g_opt_bool(r),
        paused:             g_opt_bool(r),
        additional:         g_additional(r),
    }));
    v.push(cbor_subject::<plt::TokenModuleAccountState>("TokenModuleAccountState", false, |r| plt::TokenModuleAccountState {
        allow_list: g_opt_bool(r),
        deny_list:  g_opt_bool(r),
        additional: g_additional(r),
    }));
    v.push(cbor_subject::<plt::TokenModuleInitializationParameters>("TokenModuleInitializationParameters", false, |r| {
        plt::TokenModuleInitializationParameters {
            name:               if r.coin() { Some(g_string(r)) } else { None },
            metadata:           if r.coin() { Some(g_metadata_url(r)) } else { None },
            governance_account: if r.coin() { Some(g_holder(r)) } else { None },
            allow_list:         g_opt_bool(r),
            deny_list:          g_opt_bool(r),
            initial_supply:     if r.coin() { Some(g_token_amount(r)) } else { None },
            mintable:           g_opt_bool(r),
            burnable:           g_opt_bool(r),
            additional:         g_additional(r),
        }
    }));
    v.push(cbor_subject::<plt::AddressNotFoundRejectReason>("AddressNotFoundRejectReason", false, |r| {
        plt::AddressNotFoundRejectReason {
            index:   g_u64(r) as usize,
            address: g_holder(r),
        }
    }));
    v.push(cbor_subject::<plt::TokenBalanceInsufficientRejectReason>("TokenBalanceInsufficientRejectReason", false, |r| {
        plt::TokenBalanceInsufficientRejectReason {
            index:             g_u64(r) as usize,
            available_balance: g_token_amount(r),
            required_balance:  g_token_amount(r),
        }
    }));
    v.push(cbor_subject::<plt::MintWouldOverflowRejectReason>("MintWouldOverflowRejectReason", false, |r| {
        plt::MintWouldOverflowRejectReason {
            index:                    g_u64(r) as usize,
            requested_amount:         g_token_amount(r),
            current_supply:           g_token_amount(r),
            max_representable_amount: g_token_amount(r),
        }
    }));
    let _ = g_reject_reason;
    v
}
