//! Subjects for C17: the CBOR codec (`common::cbor`) and the protocol-level
//! token types.
use codeccore::{cbor_subject, Subject};
use concordium_base::{
    common::{
        cbor::{self, value::Value, Bytes, DecimalFraction, UnsignedDecimalFraction},
        upward::CborUpward,
    },
    contracts_common::AccountAddress,
    protocol_level_tokens as plt,
    transactions::Memo,
};
use simcore::Rng;
use std::collections::HashMap;

fn g_u64(rng: &mut Rng) -> u64 {
    // every CBOR integer width boundary
    match rng.below(16) {
        0 => 0,
        1 => 23,
        2 => 24,
        3 => 255,
        4 => 256,
        5 => 65535,
        6 => 65536,
        7 => u32::MAX as u64,
        8 => u32::MAX as u64 + 1,
        9 => u64::MAX,
        10 => i64::MAX as u64,
        11 => i64::MAX as u64 + 1,
        12 => rng.below(24),
        _ => rng.next_u64() >> rng.below(64),
    }
}
fn g_i64(rng: &mut Rng) -> i64 {
    match rng.below(8) {
        0 => i64::MIN,
        1 => i64::MAX,
        2 => -1,
        3 => -24,
        4 => -25,
        5 => -256,
        6 => -257,
        _ => g_u64(rng) as i64,
    }
}
fn g_len(rng: &mut Rng) -> usize {
    match rng.below(8) {
        0 => 0,
        1 => 1,
        2 => rng.urange(23, 25),
        3 => rng.urange(255, 257),
        _ => rng.urange(0, 10),
    }
}
fn g_string(rng: &mut Rng) -> String {
    let n = g_len(rng);
    (0..n)
        .map(|_| match rng.below(10) {
            0 => 'é',
            1 => '€',
            2 => '𝄞',
            _ => (b'a' + rng.below(26) as u8) as char,
        })
        .collect()
}
fn g_key(rng: &mut Rng) -> String {
    let n = rng.urange(1, 6);
    (0..n).map(|_| (b'a' + rng.below(26) as u8) as char).collect()
}
fn g_bytes(rng: &mut Rng) -> Vec<u8> {
    let n = g_len(rng);
    rng.bytes(n)
}
fn g_f64(rng: &mut Rng) -> f64 {
    match rng.below(8) {
        0 => 0.0,
        1 => -0.0,
        2 => 1.5,
        3 => f64::INFINITY,
        4 => f64::MAX,
        5 => f64::MIN_POSITIVE,
        6 => (rng.next_u32() as f64) / 7.0,
        _ => {
            let f = f64::from_bits(rng.next_u64());
            if f.is_nan() {
                1.0
            } else {
                f
            }
        }
    }
}

/// A value of the generic CBOR data model, with map entries in the encoder's
/// (deterministic) order and without NaN so that typed equality is meaningful.
fn g_value(rng: &mut Rng, depth: u32) -> Value {
    let k = if depth >= 5 { rng.below(8) } else { rng.below(12) };
    match k {
        0 => Value::Positive(g_u64(rng)),
        1 => Value::Negative(g_u64(rng)),
        2 => Value::Bytes(Bytes(g_bytes(rng))),
        3 => Value::Text(g_string(rng)),
        4 => Value::Bool(rng.coin()),
        5 => Value::Null,
        6 => Value::Float(g_f64(rng)),
        7 => Value::Simple(*rng.pick(&[0u8, 16, 19, 23, 32, 255])),
        8 => {
            let n = rng.urange(0, 4);
            Value::Array((0..n).map(|_| g_value(rng, depth + 1)).collect())
        }
        9 | 10 => {
            let n = rng.urange(0, 4);
            let mut entries: Vec<(Value, Value)> = Vec::new();
            let mut seen: Vec<Vec<u8>> = Vec::new();
            for _ in 0..n {
                let key = match rng.below(3) {
                    0 => Value::Positive(g_u64(rng)),
                    1 => Value::Text(g_key(rng)),
                    _ => Value::Bytes(Bytes(rng.bytes(2))),
                };
                let kb = cbor::cbor_encode(&key).expect("key encodes");
                if seen.contains(&kb) {
                    continue;
                }
                seen.push(kb);
                entries.push((key, g_value(rng, depth + 1)));
            }
            // the encoder writes entries in byte-wise order of (key ‖ value)
            entries.sort_by_key(|(k, v)| {
                let mut b = cbor::cbor_encode(k).expect("key encodes");
                b.extend(cbor::cbor_encode(v).expect("value encodes"));
                b
            });
            Value::Map(entries)
        }
        _ => Value::Tag(*rng.pick(&[0u64, 4, 24, 40307, 40305, 1 << 40]), Box::new(g_value(rng, depth + 1))),
    }
}

/// Deep nesting (up to the claimed depth bound of 64).
fn g_deep_value(rng: &mut Rng) -> Value {
    let depth = *rng.pick(&[1usize, 8, 31, 32, 33, 60, 62]);
    let mut v = Value::Positive(rng.below(24));
    for i in 0..depth {
        v = match (i + rng.usize_below(3)) % 3 {
            0 => Value::Array(vec![v]),
            1 => Value::Tag(24, Box::new(v)),
            _ => Value::Map(vec![(Value::Positive(1), v)]),
        };
    }
    v
}

fn g_account(rng: &mut Rng) -> AccountAddress {
    let b = rng.bytes(32);
    let mut a = [0u8; 32];
    a.copy_from_slice(&b);
    AccountAddress(a)
}
fn g_token_amount(rng: &mut Rng) -> plt::TokenAmount {
    plt::TokenAmount::from_raw(g_u64(rng), *rng.pick(&[0u8, 1, 2, 6, 18, 255]))
}
fn g_holder(rng: &mut Rng) -> plt::CborHolderAccount {
    plt::CborHolderAccount {
        coin_info: if rng.coin() { Some(plt::CoinInfo::CCD) } else { None },
        address:   g_account(rng),
    }
}
fn g_memo(rng: &mut Rng) -> Memo {
    let n = *rng.pick(&[0usize, 1, 4, 255, 256]);
    Memo::try_from(rng.bytes(n)).expect("memo <= 256 bytes")
}
fn g_cbor_memo(rng: &mut Rng) -> plt::CborMemo {
    if rng.coin() {
        plt::CborMemo::Raw(g_memo(rng))
    } else {
        plt::CborMemo::Cbor(g_memo(rng))
    }
}
fn g_additional(rng: &mut Rng) -> HashMap<String, Value> {
    let n = match rng.below(4) {
        0 | 1 => 0,
        2 => 1,
        _ => rng.urange(2, 6),
    };
    let mut m = HashMap::new();
    for _ in 0..n {
        // keys that cannot collide with the declared field names (those are camelCase words)
        m.insert(format!("_{}", g_key(rng)), g_value(rng, 3));
    }
    m
}
fn g_hash(rng: &mut Rng) -> concordium_base::hashes::Hash {
    let b = rng.bytes(32);
    let mut a = [0u8; 32];
    a.copy_from_slice(&b);
    concordium_base::hashes::Hash::from(a)
}
fn g_metadata_url(rng: &mut Rng) -> plt::MetadataUrl {
    plt::MetadataUrl {
        url:              g_string(rng),
        checksum_sha_256: if rng.coin() { Some(g_hash(rng)) } else { None },
        additional:       g_additional(rng),
    }
}
fn g_opt_bool(rng: &mut Rng) -> Option<bool> {
    match rng.below(3) {
        0 => None,
        1 => Some(false),
        _ => Some(true),
    }
}
fn g_operation(rng: &mut Rng) -> plt::TokenOperation {
    use plt::TokenOperation::*;
    match rng.below(9) {
        0 => Transfer(plt::TokenTransfer {
            amount:    g_token_amount(rng),
            recipient: g_holder(rng),
            memo:      if rng.coin() { Some(g_cbor_memo(rng)) } else { None },
        }),
        1 => Mint(plt::TokenSupplyUpdateDetails {
            amount: g_token_amount(rng),
        }),
        2 => Burn(plt::TokenSupplyUpdateDetails {
            amount: g_token_amount(rng),
        }),
        3 => AddAllowList(plt::TokenListUpdateDetails { target: g_holder(rng) }),
        4 => RemoveAllowList(plt::TokenListUpdateDetails { target: g_holder(rng) }),
        5 => AddDenyList(plt::TokenListUpdateDetails { target: g_holder(rng) }),
        6 => RemoveDenyList(plt::TokenListUpdateDetails { target: g_holder(rng) }),
        7 => Pause(plt::TokenPauseDetails {}),
        _ => Unpause(plt::TokenPauseDetails {}),
    }
}
fn g_operations(rng: &mut Rng) -> plt::TokenOperations {
    let n = rng.urange(0, 5);
    plt::TokenOperations {
        operations: (0..n)
            .map(|_| {
                if rng.chance(1, 6) {
                    // an operation this version does not know: preserved as a one-entry map
                    CborUpward::Unknown(Value::Map(vec![(Value::Text(format!("x{}", g_key(rng))), g_value(rng, 3))]))
                } else {
                    CborUpward::Known(g_operation(rng))
                }
            })
            .collect(),
    }
}
fn g_reject_reason(rng: &mut Rng) -> plt::TokenModuleRejectReasonType {
    use plt::TokenModuleRejectReasonType::*;
    let opt_s = |rng: &mut Rng| if rng.coin() { Some(g_string(rng)) } else { None };
    match rng.below(6) {
        0 => AddressNotFound(plt::AddressNotFoundRejectReason {
            index:   g_u64(rng) as usize,
            address: g_holder(rng),
        }),
        1 => TokenBalanceInsufficient(plt::TokenBalanceInsufficientRejectReason {
            index:             g_u64(rng) as usize,
            available_balance: g_token_amount(rng),
            required_balance:  g_token_amount(rng),
        }),
        2 => DeserializationFailure(plt::DeserializationFailureRejectReason { cause: opt_s(rng) }),
        3 => UnsupportedOperation(plt::UnsupportedOperationRejectReason {
            index:          g_u64(rng) as usize,
            operation_type: g_string(rng),
            reason:         opt_s(rng),
        }),
        4 => OperationNotPermitted(plt::OperationNotPermittedRejectReason {
            index:   g_u64(rng) as usize,
            address: if rng.coin() { Some(g_holder(rng)) } else { None },
            reason:  opt_s(rng),
        }),
        _ => MintWouldOverflow(plt::MintWouldOverflowRejectReason {
            index:                    g_u64(rng) as usize,
            requested_amount:         g_token_amount(rng),
            current_supply:           g_token_amount(rng),
            max_representable_amount: g_token_amount(rng),
        }),
    }
}

pub fn cbor_subjects() -> Vec<Subject> {
    let mut v: Vec<Subject> = Vec::new();
    // generic data model
    v.push(cbor_subject::<Value>("cbor::Value", false, |r| g_value(r, 0)));
    v.push(cbor_subject::<Value>("cbor::Value(deep)", false, g_deep_value));
    // primitives at every width boundary
    v.push(cbor_subject::<u8>("u8", false, |r| g_u64(r) as u8));
    v.push(cbor_subject::<u16>("u16", false, |r| g_u64(r) as u16));
    v.push(cbor_subject::<u32>("u32", false, |r| g_u64(r) as u32));
    v.push(cbor_subject::<u64>("u64", false, g_u64));
    v.push(cbor_subject::<usize>("usize", false, |r| g_u64(r) as usize));
    v.push(cbor_subject::<i8>("i8", false, |r| g_i64(r) as i8));
    v.push(cbor_subject::<i16>("i16", false, |r| g_i64(r) as i16));
    v.push(cbor_subject::<i32>("i32", false, |r| g_i64(r) as i32));
    v.push(cbor_subject::<i64>("i64", false, g_i64));
    v.push(cbor_subject::<bool>("bool", false, |r| r.coin()));
    v.push(cbor_subject::<f64>("f64", false, g_f64));
    v.push(cbor_subject::<String>("String", false, g_string));
    v.push(cbor_subject::<Bytes>("Bytes", false, |r| Bytes(g_bytes(r))));
    v.push(cbor_subject::<[u8; 4]>("[u8;4]", false, |r| {
        let b = r.bytes(4);
        [b[0], b[1], b[2], b[3]]
    }));
    v.push(cbor_subject::<Vec<u32>>("Vec<u32>", false, |r| {
        let n = g_len(r);
        (0..n).map(|_| g_u64(r) as u32).collect()
    }));
    v.push(cbor_subject::<Vec<String>>("Vec<String>", false, |r| {
        let n = r.urange(0, 5);
        (0..n).map(|_| g_string(r)).collect()
    }));
    v.push(cbor_subject::<Option<u32>>("Option<u32>", false, |r| if r.coin() { Some(g_u64(r) as u32) } else { None }));
    v.push(cbor_subject::<HashMap<String, u32>>("HashMap<String,u32>", false, |r| {
        let n = r.urange(0, 8);
        (0..n).map(|_| (g_key(r), g_u64(r) as u32)).collect()
    }));
    v.push(cbor_subject::<HashMap<u64, String>>("HashMap<u64,String>", false, |r| {
        let n = r.urange(0, 8);
        (0..n).map(|_| (g_u64(r), g_string(r))).collect()
    }));
    v.push(cbor_subject::<DecimalFraction>("DecimalFraction", false, |r| DecimalFraction::new(g_i64(r), g_i64(r))));
    v.push(cbor_subject::<UnsignedDecimalFraction>("UnsignedDecimalFraction", false, |r| {
        UnsignedDecimalFraction::new(g_i64(r), g_u64(r))
    }));
    v.push(cbor_subject::<AccountAddress>("AccountAddress", false, g_account));
    v.push(cbor_subject::<concordium_base::hashes::Hash>("Hash", false, g_hash));
    // protocol-level token types
    v.push(cbor_subject::<plt::TokenAmount>("TokenAmount", false, g_token_amount));
    v.push(cbor_subject::<plt::CoinInfo>("CoinInfo", false, |_| plt::CoinInfo::CCD));
    v.push(cbor_subject::<plt::CborHolderAccount>("CborHolderAccount", false, g_holder));
    v.push(cbor_subject::<plt::CborHolderAccount>("CborHolderAccount(fail-unknown)", true, g_holder));
    v.push(cbor_subject::<plt::CborMemo>("CborMemo", false, g_cbor_memo));
    v.push(cbor_subject::<plt::TokenOperation>("TokenOperation", false, g_operation));
    v.push(cbor_subject::<plt::TokenOperation>("TokenOperation(fail-unknown)", true, g_operation));
    v.push(cbor_subject::<plt::TokenOperations>("TokenOperations", false, g_operations));
    v.push(cbor_subject::<plt::TokenTransfer>("TokenTransfer", false, |r| plt::TokenTransfer {
        amount:    g_token_amount(r),
        recipient: g_holder(r),
        memo:      if r.coin() { Some(g_cbor_memo(r)) } else { None },
    }));
    v.push(cbor_subject::<plt::TokenListUpdateEventDetails>("TokenListUpdateEventDetails", false, |r| {
        plt::TokenListUpdateEventDetails { target: g_holder(r) }
    }));
    v.push(cbor_subject::<plt::TokenPauseEventDetails>("TokenPauseEventDetails", false, |_| plt::TokenPauseEventDetails {}));
    v.push(cbor_subject::<plt::MetadataUrl>("MetadataUrl", false, g_metadata_url));
    v.push(cbor_subject::<plt::TokenModuleState>("TokenModuleState", false, |r| plt::TokenModuleState {
        name:               if r.coin() { Some(g_string(r)) } else { None },
        metadata:           if r.coin() { Some(g_metadata_url(r)) } else { None },
        governance_account: if r.coin() { Some(g_holder(r)) } else { None },
        allow_list:         g_opt_bool(r),
        deny_list:          g_opt_bool(r),
        mintable:           g_opt_bool(r),
        burnable:           g_opt_bool(r),
        paused:             g_opt_bool(r),
        additional:         g_additional(r),
    }));
    v.push(cbor_subject::<plt::TokenModuleAccountState>("TokenModuleAccountState", false, |r| plt::TokenModuleAccountState {
        allow_list: g_opt_bool(r),
        deny_list:  g_opt_bool(r),
        additional: g_additional(r),
    }));
    v.push(cbor_subject::<plt::TokenModuleInitializationParameters>("TokenModuleInitializationParameters", false, |r| {
        plt::TokenModuleInitializationParameters {
            name:               if r.coin() { Some(g_string(r)) } else { None },
            metadata:           if r.coin() { Some(g_metadata_url(r)) } else { None },
            governance_account: if r.coin() { Some(g_holder(r)) } else { None },
            allow_list:         g_opt_bool(r),
            deny_list:          g_opt_bool(r),
            initial_supply:     if r.coin() { Some(g_token_amount(r)) } else { None },
            mintable:           g_opt_bool(r),
            burnable:           g_opt_bool(r),
            additional:         g_additional(r),
        }
    }));
    v.push(cbor_subject::<plt::AddressNotFoundRejectReason>("AddressNotFoundRejectReason", false, |r| {
        plt::AddressNotFoundRejectReason {
            index:   g_u64(r) as usize,
            address: g_holder(r),
        }
    }));
    v.push(cbor_subject::<plt::TokenBalanceInsufficientRejectReason>("TokenBalanceInsufficientRejectReason", false, |r| {
        plt::TokenBalanceInsufficientRejectReason {
            index:             g_u64(r) as usize,
            available_balance: g_token_amount(r),
            required_balance:  g_token_amount(r),
        }
    }));
    v.push(cbor_subject::<plt::MintWouldOverflowRejectReason>("MintWouldOverflowRejectReason", false, |r| {
        plt::MintWouldOverflowRejectReason {
            index:                    g_u64(r) as usize,
            requested_amount:         g_token_amount(r),
            current_supply:           g_token_amount(r),
            max_representable_amount: g_token_amount(r),
        }
    }));
    let _ = g_reject_reason;
    v
}
