//! Subjects for C16: contracts-common `Serial`/`Deserial`/`SerialCtx`/`DeserialCtx`.
use codeccore::{cc_subject, Subject};
use concordium_contracts_common::{self as cc, schema, schema::SizeLength, Deserial, DeserialCtx, Read, Serial, SerialCtx, Write};
use simcore::Rng;
use cc::{HashMap, HashSet};
use std::collections::{BTreeMap, BTreeSet};

fn g_u64(rng: &mut Rng) -> u64 {
    match rng.below(8) {
        0 => 0,
        1 => u64::MAX,
        2 => 1,
        3 => rng.below(256),
        4 => 1 << rng.below(64),
        _ => rng.next_u64(),
    }
}
fn g_len(rng: &mut Rng) -> usize {
    match rng.below(10) {
        0 => 0,
        1 => 1,
        2 => rng.urange(2, 4),
        3 => rng.urange(30, 70),
        _ => rng.urange(0, 12),
    }
}
fn g_string(rng: &mut Rng) -> String {
    let n = g_len(rng);
    (0..n)
        .map(|_| match rng.below(8) {
            0 => 'é',
            1 => '€',
            2 => '𝄞',
            _ => (b'a' + rng.below(26) as u8) as char,
        })
        .collect()
}
fn g_ident(rng: &mut Rng, max: usize) -> String {
    let n = rng.urange(0, max);
    (0..n)
        .map(|_| *rng.pick(&['a', 'Z', '0', '_', '-', '!', '~', 'x']))
        .collect()
}
fn g_amount(rng: &mut Rng) -> cc::Amount { cc::Amount::from_micro_ccd(g_u64(rng)) }
fn g_account(rng: &mut Rng) -> cc::AccountAddress {
    let b = rng.bytes(32);
    let mut a = [0u8; 32];
    a.copy_from_slice(&b);
    cc::AccountAddress(a)
}
fn g_contract(rng: &mut Rng) -> cc::ContractAddress { cc::ContractAddress::new(g_u64(rng), g_u64(rng)) }
fn g_timestamp(rng: &mut Rng) -> cc::Timestamp { cc::Timestamp::from_timestamp_millis(g_u64(rng)) }
fn g_contract_name(rng: &mut Rng) -> cc::OwnedContractName {
    cc::OwnedContractName::new(format!("init_{}", g_ident(rng, 94))).expect("valid contract name")
}
fn g_receive_name(rng: &mut Rng) -> cc::OwnedReceiveName {
    let c = g_ident(rng, 40);
    let f = g_ident(rng, 40);
    cc::OwnedReceiveName::new(format!("{}.{}", c, f)).expect("valid receive name")
}
fn g_entrypoint(rng: &mut Rng) -> cc::OwnedEntrypointName {
    cc::OwnedEntrypointName::new(g_ident(rng, 99)).expect("valid entrypoint name")
}
fn g_param(rng: &mut Rng) -> cc::OwnedParameter {
    let n = match rng.below(8) {
        0 => 0,
        1 => 65535,
        2 => 1024,
        _ => rng.urange(0, 60),
    };
    cc::OwnedParameter::new_unchecked(rng.bytes(n))
}
fn g_attr_value(rng: &mut Rng) -> cc::AttributeValue {
    let n = *rng.pick(&[0usize, 1, 8, 30, 31]);
    cc::AttributeValue::new(&rng.bytes(n)).expect("<= 31 bytes")
}
fn g_policy(rng: &mut Rng) -> cc::OwnedPolicy {
    let n = rng.urange(0, 5);
    cc::OwnedPolicy {
        identity_provider: rng.next_u32(),
        created_at:        g_timestamp(rng),
        valid_to:          g_timestamp(rng),
        items:             (0..n).map(|_| (cc::AttributeTag(rng.below(256) as u8), g_attr_value(rng))).collect(),
    }
}
fn g_size_length(rng: &mut Rng) -> SizeLength {
    *rng.pick(&[SizeLength::U8, SizeLength::U16, SizeLength::U32, SizeLength::U64])
}
fn g_fields(rng: &mut Rng, depth: u32) -> schema::Fields {
    match rng.below(3) {
        0 => schema::Fields::None,
        1 => {
            let n = rng.urange(0, 3);
            schema::Fields::Unnamed((0..n).map(|_| g_type(rng, depth + 1)).collect())
        }
        _ => {
            let n = rng.urange(0, 3);
            schema::Fields::Named((0..n).map(|_| (g_string(rng), g_type(rng, depth + 1))).collect())
        }
    }
}
fn g_type(rng: &mut Rng, depth: u32) -> schema::Type {
    use schema::Type::*;
    let k = if depth >= 4 { rng.below(17) } else { rng.below(33) };
    match k {
        0 => Unit,
        1 => Bool,
        2 => U8,
        3 => U16,
        4 => U32,
        5 => U64,
        6 => U128,
        7 => I8,
        8 => I16,
        9 => I32,
        10 => I64,
        11 => I128,
        12 => Amount,
        13 => AccountAddress,
        14 => ContractAddress,
        15 => Timestamp,
        16 => Duration,
        17 => Pair(Box::new(g_type(rng, depth + 1)), Box::new(g_type(rng, depth + 1))),
        18 => List(g_size_length(rng), Box::new(g_type(rng, depth + 1))),
        19 => Set(g_size_length(rng), Box::new(g_type(rng, depth + 1))),
        20 => Map(g_size_length(rng), Box::new(g_type(rng, depth + 1)), Box::new(g_type(rng, depth + 1))),
        21 => Array(rng.next_u32(), Box::new(g_type(rng, depth + 1))),
        22 => Struct(g_fields(rng, depth)),
        23 => {
            let n = rng.urange(0, 3);
            Enum((0..n).map(|_| (g_string(rng), g_fields(rng, depth))).collect())
        }
        24 => String(g_size_length(rng)),
        25 => ContractName(g_size_length(rng)),
        26 => ReceiveName(g_size_length(rng)),
        27 => ULeb128(rng.next_u32()),
        28 => ILeb128(rng.next_u32()),
        29 => ByteList(g_size_length(rng)),
        30 => ByteArray(rng.next_u32()),
        _ => {
            let n = rng.urange(0, 3);
            let mut m = BTreeMap::new();
            for _ in 0..n {
                m.insert(rng.below(256) as u8, (g_string(rng), g_fields(rng, depth)));
            }
            TaggedEnum(m)
        }
    }
}
fn g_opt_type(rng: &mut Rng) -> Option<schema::Type> {
    if rng.coin() {
        Some(g_type(rng, 1))
    } else {
        None
    }
}
fn g_function_v1(rng: &mut Rng) -> schema::FunctionV1 {
    match rng.below(3) {
        0 => schema::FunctionV1::Parameter(g_type(rng, 1)),
        1 => schema::FunctionV1::ReturnValue(g_type(rng, 1)),
        _ => schema::FunctionV1::Both {
            parameter:    g_type(rng, 1),
            return_value: g_type(rng, 1),
        },
    }
}
fn g_function_v2(rng: &mut Rng) -> schema::FunctionV2 {
    schema::FunctionV2 {
        parameter:    g_opt_type(rng),
        return_value: g_opt_type(rng),
        error:        g_opt_type(rng),
    }
}
fn g_named<T>(rng: &mut Rng, f: fn(&mut Rng) -> T) -> BTreeMap<String, T> {
    let n = rng.urange(0, 3);
    let mut m = BTreeMap::new();
    for _ in 0..n {
        m.insert(g_string(rng), f(rng));
    }
    m
}
fn g_contract_v0(rng: &mut Rng) -> schema::ContractV0 {
    schema::ContractV0 {
        state:   g_opt_type(rng),
        init:    g_opt_type(rng),
        receive: g_named(rng, |r| g_type(r, 1)),
    }
}
fn g_contract_v1(rng: &mut Rng) -> schema::ContractV1 {
    schema::ContractV1 {
        init:    if rng.coin() { Some(g_function_v1(rng)) } else { None },
        receive: g_named(rng, g_function_v1),
    }
}
fn g_contract_v2(rng: &mut Rng) -> schema::ContractV2 {
    schema::ContractV2 {
        init:    if rng.coin() { Some(g_function_v2(rng)) } else { None },
        receive: g_named(rng, g_function_v2),
    }
}
fn g_contract_v3(rng: &mut Rng) -> schema::ContractV3 {
    schema::ContractV3 {
        init:    if rng.coin() { Some(g_function_v2(rng)) } else { None },
        receive: g_named(rng, g_function_v2),
        event:   g_opt_type(rng),
    }
}

/// Wrapper giving a `SerialCtx`/`DeserialCtx` collection a fixed size length
/// (and the order check on) so that it is a plain `Serial`/`Deserial` subject.
macro_rules! ctx_wrapper {
    ($name:ident, $inner:ty, $sl:expr) => {
        #[derive(Debug, PartialEq)]
        struct $name($inner);
        impl Serial for $name {
            fn serial<W: Write>(&self, out: &mut W) -> Result<(), W::Err> { self.0.serial_ctx($sl, out) }
        }
        impl Deserial for $name {
            fn deserial<R: Read>(source: &mut R) -> cc::ParseResult<Self> {
                Ok($name(<$inner as DeserialCtx>::deserial_ctx($sl, true, source)?))
            }
        }
    };
}
ctx_wrapper!(VecU16L8, Vec<u16>, SizeLength::U8);
ctx_wrapper!(VecU8L16, Vec<u8>, SizeLength::U16);
ctx_wrapper!(VecU32L64, Vec<u32>, SizeLength::U64);
ctx_wrapper!(StringL8, String, SizeLength::U8);
ctx_wrapper!(StringL16, String, SizeLength::U16);
ctx_wrapper!(SetU16L8, BTreeSet<u16>, SizeLength::U8);
ctx_wrapper!(SetU32L16, BTreeSet<u32>, SizeLength::U16);
ctx_wrapper!(MapU8U16L8, BTreeMap<u8, u16>, SizeLength::U8);
ctx_wrapper!(MapU16U8L64, BTreeMap<u16, u8>, SizeLength::U64);
ctx_wrapper!(HSetU16L8, HashSet<u16>, SizeLength::U8);
ctx_wrapper!(HMapU8U8L16, HashMap<u8, u8>, SizeLength::U16);

/// Types without `PartialEq`: compared through their `Debug` rendering.
macro_rules! debug_eq_wrapper {
    ($name:ident, $inner:ty) => {
        #[derive(Debug)]
        struct $name($inner);
        impl PartialEq for $name {
            fn eq(&self, o: &Self) -> bool { format!("{:?}", self.0) == format!("{:?}", o.0) }
        }
        impl Serial for $name {
            fn serial<W: Write>(&self, out: &mut W) -> Result<(), W::Err> { self.0.serial(out) }
        }
        impl Deserial for $name {
            fn deserial<R: Read>(source: &mut R) -> cc::ParseResult<Self> { Ok($name(<$inner>::deserial(source)?)) }
        }
    };
}
debug_eq_wrapper!(ChainMetadataW, cc::ChainMetadata);
debug_eq_wrapper!(OwnedPolicyW, cc::OwnedPolicy);

fn g_vec<T>(rng: &mut Rng, f: fn(&mut Rng) -> T) -> Vec<T> {
    let n = g_len(rng);
    (0..n).map(|_| f(rng)).collect()
}

fn unstable(mut s: Subject) -> Subject {
    s.stable_bytes = false;
    s
}

/// The order-checking readers named in the property, with a u32 length.
#[derive(Debug, PartialEq)]
struct OrderedSetU16(BTreeSet<u16>);
impl Serial for OrderedSetU16 {
    fn serial<W: Write>(&self, out: &mut W) -> Result<(), W::Err> { self.0.serial(out) }
}
impl Deserial for OrderedSetU16 {
    fn deserial<R: Read>(source: &mut R) -> cc::ParseResult<Self> {
        let len: u32 = u32::deserial(source)?;
        Ok(OrderedSetU16(cc::deserial_set_no_length(source, len as usize)?))
    }
}
#[derive(Debug, PartialEq)]
struct OrderedMapU8U16(BTreeMap<u8, u16>);
impl Serial for OrderedMapU8U16 {
    fn serial<W: Write>(&self, out: &mut W) -> Result<(), W::Err> { self.0.serial(out) }
}
impl Deserial for OrderedMapU8U16 {
    fn deserial<R: Read>(source: &mut R) -> cc::ParseResult<Self> {
        let len: u32 = u32::deserial(source)?;
        Ok(OrderedMapU8U16(cc::deserial_map_no_length(source, len as usize)?))
    }
}

/// Addresses drawn from a small grid so that keys share an index (or an account prefix) and differ
/// only in the subindex / last byte.
fn g_clashing_address(rng: &mut Rng) -> cc::Address {
    if rng.chance(1, 3) {
        let mut a = [3u8; 32];
        a[31] = rng.below(3) as u8;
        cc::Address::Account(cc::AccountAddress(a))
    } else {
        cc::Address::Contract(cc::ContractAddress::new(*rng.pick(&[0u64, 5, u64::MAX]), rng.below(3)))
    }
}
#[derive(Debug, PartialEq)]
struct OrderedSetAddress(BTreeSet<cc::Address>);
impl Serial for OrderedSetAddress {
    fn serial<W: Write>(&self, out: &mut W) -> Result<(), W::Err> { self.0.serial(out) }
}
impl Deserial for OrderedSetAddress {
    fn deserial<R: Read>(source: &mut R) -> cc::ParseResult<Self> {
        let len: u32 = u32::deserial(source)?;
        Ok(OrderedSetAddress(cc::deserial_set_no_length(source, len as usize)?))
    }
}

/// A value read through `Chain`: the first `cut` permille of the encoding come from one stream, the
/// rest from a second one; both deliver short counts as the read plan says.
fn chain_subject() -> Subject {
    use codeccore::{families::CcReader, subject::DecodeOut};
    use simcore::faultio::{ReadPlan, SimReader};
    type T = (u64, Vec<u16>, String, u32);
    fn gen(r: &mut Rng) -> T { (g_u64(r), g_vec(r, |r| g_u64(r) as u16), g_string(r), g_u64(r) as u32) }
    fn read_chained(bytes: &[u8], plan: &ReadPlan) -> (cc::ParseResult<T>, usize, simcore::faultio::IoStats) {
        // split point derived from the content (a replay is a function of the plan alone); the second
        // stream is never empty when there are bytes at all
        let k = if bytes.is_empty() { 0 } else { (bytes.iter().map(|b| *b as usize).sum::<usize>() * 7 + 3) % bytes.len() };
        let (mut p1, mut p2) = (plan.clone(), plan.clone());
        // A premature end of the *first* stream is not a truncation for a chain (it moves on to the
        // second stream): an injected end of stream is placed in the second one. A hard error lands
        // in the stream that holds its position.
        p1.eof_at = None;
        p2.eof_at = plan.eof_at.map(|a| if bytes.len() > k { a % (bytes.len() - k) as u64 } else { 0 });
        match plan.err_at {
            Some(a) if (a as usize) < k => {
                p1.err_at = Some(a);
                p2.err_at = None;
            }
            Some(a) => {
                p1.err_at = None;
                p2.err_at = Some(a - k as u64);
            }
            None => {}
        }
        let mut first = CcReader(SimReader::new(&bytes[..k], &p1));
        let mut second = CcReader(SimReader::new(&bytes[k..], &p2));
        let res = {
            let mut ch = cc::Chain::new(&mut first, &mut second);
            <T as Deserial>::deserial(&mut ch)
        };
        let consumed = first.0.consumed() + second.0.consumed();
        let mut io = first.0.stats;
        io.short += second.0.stats.short;
        (res, consumed, io)
    }
    let mut s = cc_subject::<T>("(u64,Vec<u16>,String,u32) through Chain", false, gen);
    s.decode = Box::new(|bytes, plan| {
        let (res, consumed, io) = read_chained(bytes, plan);
        DecodeOut {
            res: res.map(|v| cc::to_bytes(&v)).map_err(|_| "ParseError".to_string()),
            consumed,
            io,
        }
    });
    s.typed = Box::new(|seed, plan| {
        let v = gen(&mut Rng::new(seed));
        let b = cc::to_bytes(&v);
        let (res, consumed, _) = read_chained(&b, plan);
        match res {
            Ok(v2) if v2 == v && consumed == b.len() => Ok(()),
            Ok(v2) => Err(format!("value read through a chain of two short-reading streams differs: {:?} vs {:?} ({} of {} bytes)", v2, v, consumed, b.len())),
            Err(_) => Err("decoding the encoding of a value through a chain of two short-reading streams failed".to_string()),
        }
    });
    s
}

pub fn cc_subjects() -> Vec<Subject> {
    let mut v: Vec<Subject> = Vec::new();
    v.push(chain_subject());
    v.push(cursor_subject());
    v.push(cc_subject::<OrderedSetAddress>("deserial_set_no_length<Address>", true, |r| {
        OrderedSetAddress(g_vec(r, g_clashing_address).into_iter().collect())
    }));
    v.push(cc_subject::<BTreeMap<cc::Address, u8>>("BTreeMap<Address,u8>", false, |r| {
        g_vec(r, |r| (g_clashing_address(r), r.below(256) as u8)).into_iter().collect()
    }));
    v.push(cc_subject::<BTreeSet<cc::ContractAddress>>("BTreeSet<ContractAddress>", false, |r| {
        g_vec(r, |r| cc::ContractAddress::new(*r.pick(&[0u64, 5]), r.below(3))).into_iter().collect()
    }));
    // primitives (fixed width: every byte string of the right length is the unique encoding)
    v.push(cc_subject::<u8>("u8", true, |r| r.below(256) as u8));
    v.push(cc_subject::<u16>("u16", true, |r| g_u64(r) as u16));
    v.push(cc_subject::<u32>("u32", true, |r| g_u64(r) as u32));
    v.push(cc_subject::<u64>("u64", true, g_u64));
    v.push(cc_subject::<u128>("u128", true, |r| ((g_u64(r) as u128) << 64) | g_u64(r) as u128));
    v.push(cc_subject::<i8>("i8", true, |r| r.below(256) as i8));
    v.push(cc_subject::<i16>("i16", true, |r| g_u64(r) as i16));
    v.push(cc_subject::<i32>("i32", true, |r| g_u64(r) as i32));
    v.push(cc_subject::<i64>("i64", true, |r| g_u64(r) as i64));
    v.push(cc_subject::<i128>("i128", true, |r| (((g_u64(r) as u128) << 64) | g_u64(r) as u128) as i128));
    v.push(cc_subject::<bool>("bool", false, |r| r.coin()));
    v.push(cc_subject::<()>("unit", true, |_| ()));
    v.push(cc_subject::<(u8, u16)>("(u8,u16)", true, |r| (r.below(256) as u8, g_u64(r) as u16)));
    v.push(cc_subject::<(u8, String, u32)>("(u8,String,u32)", false, |r| (r.below(256) as u8, g_string(r), g_u64(r) as u32)));
    v.push(cc_subject::<(u8, u8, u8, u8)>("(u8,u8,u8,u8)", true, |r| {
        let b = r.bytes(4);
        (b[0], b[1], b[2], b[3])
    }));
    v.push(cc_subject::<(u16, bool, u8, i8, u64)>("(u16,bool,u8,i8,u64)", false, |r| {
        (g_u64(r) as u16, r.coin(), r.below(256) as u8, r.below(256) as i8, g_u64(r))
    }));
    v.push(cc_subject::<[u8; 7]>("[u8;7]", true, |r| {
        let b = r.bytes(7);
        let mut a = [0u8; 7];
        a.copy_from_slice(&b);
        a
    }));
    v.push(cc_subject::<[u16; 3]>("[u16;3]", true, |r| [g_u64(r) as u16, g_u64(r) as u16, g_u64(r) as u16]));
    v.push(cc_subject::<[String; 2]>("[String;2]", false, |r| [g_string(r), g_string(r)]));
    // chain value types
    v.push(cc_subject::<cc::Amount>("Amount", true, g_amount));
    v.push(cc_subject::<cc::Timestamp>("Timestamp", true, g_timestamp));
    v.push(cc_subject::<cc::Duration>("Duration", true, |r| cc::Duration::from_millis(g_u64(r))));
    v.push(cc_subject::<cc::ExchangeRate>("ExchangeRate", false, |r| {
        cc::ExchangeRate::new_unchecked(g_u64(r).max(1), g_u64(r).max(1))
    }));
    v.last_mut().unwrap().crafted = Some(Box::new(|seed| crafted_rates(seed, 2)));
    v.push(cc_subject::<cc::ExchangeRates>("ExchangeRates", false, |r| cc::ExchangeRates {
        euro_per_energy:    cc::ExchangeRate::new_unchecked(g_u64(r).max(1), g_u64(r).max(1)),
        micro_ccd_per_euro: cc::ExchangeRate::new_unchecked(g_u64(r).max(1), g_u64(r).max(1)),
    }));
    v.last_mut().unwrap().crafted = Some(Box::new(|seed| crafted_rates(seed, 4)));
    v.push(cc_subject::<cc::AccountBalance>("AccountBalance", false, |r| {
        let total = g_u64(r);
        let staked = if total == 0 { 0 } else { r.range(0, total) };
        let locked = if total == 0 { 0 } else { r.range(0, total) };
        cc::AccountBalance::new(cc::Amount::from_micro_ccd(total), cc::Amount::from_micro_ccd(staked), cc::Amount::from_micro_ccd(locked))
            .expect("staked, locked <= total")
    }));
    v.push(cc_subject::<cc::AccountAddress>("AccountAddress", true, g_account));
    v.push(cc_subject::<cc::ContractAddress>("ContractAddress", true, g_contract));
    v.push(cc_subject::<cc::Address>("Address", false, |r| {
        if r.coin() {
            cc::Address::Account(g_account(r))
        } else {
            cc::Address::Contract(g_contract(r))
        }
    }));
    v.push(cc_subject::<cc::OwnedContractName>("OwnedContractName", false, g_contract_name));
    v.push(cc_subject::<cc::OwnedReceiveName>("OwnedReceiveName", false, g_receive_name));
    v.push(cc_subject::<cc::OwnedEntrypointName>("OwnedEntrypointName", false, g_entrypoint));
    v.push(cc_subject::<cc::OwnedParameter>("OwnedParameter", false, g_param));
    v.push(cc_subject::<ChainMetadataW>("ChainMetadata", true, |r| {
        ChainMetadataW(cc::ChainMetadata {
            slot_time: g_timestamp(r),
        })
    }));
    v.push(cc_subject::<cc::AttributeTag>("AttributeTag", true, |r| cc::AttributeTag(r.below(256) as u8)));
    v.push(cc_subject::<cc::AttributeValue>("AttributeValue", false, g_attr_value));
    v.push(cc_subject::<OwnedPolicyW>("OwnedPolicy", false, |r| OwnedPolicyW(g_policy(r))));
    v.push(cc_subject::<cc::AccountThreshold>("AccountThreshold", false, |r| {
        cc::AccountThreshold::try_from(r.range(1, 255) as u8).expect("non-zero")
    }));
    v.push(cc_subject::<cc::SignatureThreshold>("SignatureThreshold", false, |r| {
        cc::SignatureThreshold::try_from(r.range(1, 255) as u8).expect("non-zero")
    }));
    v.push(cc_subject::<cc::hashes::ModuleReference>("ModuleReference", true, |r| {
        let b = r.bytes(32);
        let mut a = [0u8; 32];
        a.copy_from_slice(&b);
        cc::hashes::ModuleReference::new(a)
    }));
    // std containers with the default (u32) length
    v.push(cc_subject::<String>("String", false, g_string));
    v.push(cc_subject::<Box<u32>>("Box<u32>", true, |r| Box::new(g_u64(r) as u32)));
    v.push(cc_subject::<Option<u16>>("Option<u16>", false, |r| if r.coin() { Some(g_u64(r) as u16) } else { None }));
    v.push(cc_subject::<Option<String>>("Option<String>", false, |r| if r.coin() { Some(g_string(r)) } else { None }));
    v.push(cc_subject::<Vec<u8>>("Vec<u8>", false, |r| {
        let n = g_len(r);
        r.bytes(n)
    }));
    v.push(cc_subject::<Vec<u64>>("Vec<u64>", false, |r| g_vec(r, g_u64)));
    v.push(cc_subject::<Vec<String>>("Vec<String>", false, |r| g_vec(r, g_string)));
    v.push(cc_subject::<Vec<(u8, cc::Amount)>>("Vec<(u8,Amount)>", false, |r| g_vec(r, |r| (r.below(256) as u8, g_amount(r)))));
    v.push(cc_subject::<BTreeSet<u16>>("BTreeSet<u16>", false, |r| g_vec(r, |r| r.below(40) as u16).into_iter().collect()));
    v.push(cc_subject::<BTreeSet<[u8; 2]>>("BTreeSet<[u8;2]>", false, |r| {
        g_vec(r, |r| [r.below(3) as u8, r.below(4) as u8]).into_iter().collect()
    }));
    v.push(cc_subject::<BTreeMap<u8, u16>>("BTreeMap<u8,u16>", false, |r| {
        g_vec(r, |r| (r.below(30) as u8, g_u64(r) as u16)).into_iter().collect()
    }));
    v.push(cc_subject::<BTreeMap<u32, String>>("BTreeMap<u32,String>", false, |r| {
        g_vec(r, |r| (r.below(30) as u32, g_string(r))).into_iter().collect()
    }));
    v.push(cc_subject::<BTreeMap<String, u8>>("BTreeMap<String,u8>", false, |r| {
        g_vec(r, |r| (g_string(r), r.below(256) as u8)).into_iter().collect()
    }));
    v.push(unstable(cc_subject::<HashSet<u16>>("HashSet<u16>", false, |r| g_vec(r, |r| r.below(40) as u16).into_iter().collect())));
    v.push(unstable(cc_subject::<HashMap<u8, u16>>("HashMap<u8,u16>", false, |r| {
        g_vec(r, |r| (r.below(30) as u8, g_u64(r) as u16)).into_iter().collect()
    })));
    v.push(ctx_limit_subject());
    // contextual collections with every size length
    v.push(cc_subject::<VecU16L8>("Vec<u16>@U8", false, |r| VecU16L8(g_vec(r, |r| g_u64(r) as u16))));
    v.push(cc_subject::<VecU8L16>("Vec<u8>@U16", false, |r| {
        let n = g_len(r);
        VecU8L16(r.bytes(n))
    }));
    v.push(cc_subject::<VecU32L64>("Vec<u32>@U64", false, |r| VecU32L64(g_vec(r, |r| g_u64(r) as u32))));
    v.push(cc_subject::<StringL8>("String@U8", false, |r| {
        let mut s = g_string(r);
        while s.len() > 255 {
            s.pop();
        }
        StringL8(s)
    }));
    v.push(cc_subject::<StringL16>("String@U16", false, |r| StringL16(g_string(r))));
    v.push(cc_subject::<SetU16L8>("BTreeSet<u16>@U8", true, |r| SetU16L8(g_vec(r, |r| r.below(40) as u16).into_iter().collect())));
    v.push(cc_subject::<SetU32L16>("BTreeSet<u32>@U16", true, |r| SetU32L16(g_vec(r, |r| r.below(40) as u32).into_iter().collect())));
    v.push(cc_subject::<MapU8U16L8>("BTreeMap<u8,u16>@U8", true, |r| {
        MapU8U16L8(g_vec(r, |r| (r.below(30) as u8, g_u64(r) as u16)).into_iter().collect())
    }));
    v.push(cc_subject::<MapU16U8L64>("BTreeMap<u16,u8>@U64", true, |r| {
        MapU16U8L64(g_vec(r, |r| (r.below(30) as u16, r.below(256) as u8)).into_iter().collect())
    }));
    v.push(unstable(cc_subject::<HSetU16L8>("HashSet<u16>@U8", false, |r| HSetU16L8(g_vec(r, |r| r.below(40) as u16).into_iter().collect()))));
    v.push(unstable(cc_subject::<HMapU8U8L16>("HashMap<u8,u8>@U16", false, |r| {
        HMapU8U8L16(g_vec(r, |r| (r.below(30) as u8, r.below(256) as u8)).into_iter().collect())
    })));
    v.push(cc_subject::<OrderedSetU16>("deserial_set_no_length<u16>", true, |r| {
        OrderedSetU16(g_vec(r, |r| r.below(40) as u16).into_iter().collect())
    }));
    v.push(cc_subject::<OrderedMapU8U16>("deserial_map_no_length<u8,u16>", true, |r| {
        OrderedMapU8U16(g_vec(r, |r| (r.below(30) as u8, g_u64(r) as u16)).into_iter().collect())
    }));
    // schema types
    v.push(cc_subject::<SizeLength>("schema::SizeLength", false, g_size_length));
    v.push(cc_subject::<schema::Type>("schema::Type", false, |r| g_type(r, 0)));
    v.push(cc_subject::<schema::Fields>("schema::Fields", false, |r| g_fields(r, 0)));
    v.push(cc_subject::<schema::FunctionV1>("schema::FunctionV1", false, g_function_v1));
    v.push(cc_subject::<schema::FunctionV2>("schema::FunctionV2", false, g_function_v2));
    v.push(cc_subject::<schema::ContractV0>("schema::ContractV0", false, g_contract_v0));
    v.push(cc_subject::<schema::ContractV1>("schema::ContractV1", false, g_contract_v1));
    v.push(cc_subject::<schema::ContractV2>("schema::ContractV2", false, g_contract_v2));
    v.push(cc_subject::<schema::ContractV3>("schema::ContractV3", false, g_contract_v3));
    v.push(cc_subject::<schema::ModuleV0>("schema::ModuleV0", false, |r| schema::ModuleV0 {
        contracts: g_named(r, g_contract_v0),
    }));
    v.push(cc_subject::<schema::ModuleV1>("schema::ModuleV1", false, |r| schema::ModuleV1 {
        contracts: g_named(r, g_contract_v1),
    }));
    v.push(cc_subject::<schema::ModuleV2>("schema::ModuleV2", false, |r| schema::ModuleV2 {
        contracts: g_named(r, g_contract_v2),
    }));
    v.push(cc_subject::<schema::ModuleV3>("schema::ModuleV3", false, |r| schema::ModuleV3 {
        contracts: g_named(r, g_contract_v3),
    }));
    v
}

/// `serial_ctx` at the limits of the length prefix: a collection with 2^8 / 2^16 or more elements has
/// no encoding with a 1 / 2 byte prefix. The encoder may refuse; if it reports success, the bytes
/// must decode to the value.
fn ctx_limit_subject() -> Subject {
    use codeccore::families::CcReader;
    use simcore::faultio::{ReadPlan, SimReader};
    fn check<T: SerialCtx + DeserialCtx + PartialEq>(what: &str, sl: SizeLength, v: T, n: usize, plan: &ReadPlan) -> Result<(), String> {
        let mut out: Vec<u8> = Vec::new();
        if v.serial_ctx(sl, &mut out).is_err() {
            return Ok(());
        }
        let mut r = CcReader(SimReader::new(&out, plan));
        match T::deserial_ctx(sl, true, &mut r) {
            Ok(v2) if v2 == v && r.0.consumed() == out.len() => Ok(()),
            Ok(_) => Err(format!(
                "serial_ctx reported success for a {} of {} elements with length prefix {:?}, but its {} bytes decode to a different value or leave bytes over",
                what,
                n,
                sl,
                out.len()
            )),
            Err(_) => Err(format!("serial_ctx reported success for a {} of {} elements with length prefix {:?}, but the bytes do not decode", what, n, sl)),
        }
    }
    let mut s = cc_subject::<VecU8L16>("serial_ctx at the length-prefix limits", false, |r| {
        let n = g_len(r);
        VecU8L16(r.bytes(n))
    });
    s.typed = Box::new(|seed, plan| {
        let mut rng = Rng::new(seed);
        let small = *rng.pick(&[254usize, 255, 256, 257, 300, 512]);
        let big = *rng.pick(&[65534usize, 65535, 65536, 65537, 65540, 70000, 131072]);
        match rng.below(7) {
            0 => check("Vec<u8>", SizeLength::U8, vec![7u8; small], small, plan),
            1 => check("Vec<u8>", SizeLength::U16, vec![7u8; big], big, plan),
            2 => check("String", SizeLength::U8, "x".repeat(small), small, plan),
            3 => check("String", SizeLength::U16, "x".repeat(big), big, plan),
            4 => check("BTreeSet<u32>", SizeLength::U8, (0..small as u32).collect::<BTreeSet<u32>>(), small, plan),
            5 => check("BTreeMap<u16,u8>", SizeLength::U8, (0..small as u16).map(|k| (k, 1u8)).collect::<BTreeMap<u16, u8>>(), small, plan),
            _ => check("Vec<u16>", SizeLength::U16, vec![9u16; big], big, plan),
        }
    });
    s
}

/// Exchange rates are ratios of non-zero numbers: `n` little-endian u64, some of them zero.
fn crafted_rates(seed: u64, n: usize) -> (Vec<u8>, Option<bool>) {
    let mut rng = Rng::new(seed);
    let zero_at = if rng.chance(2, 3) { Some(rng.usize_below(n)) } else { None };
    let mut b = Vec::new();
    let mut any_zero = false;
    for i in 0..n {
        let v = if Some(i) == zero_at || rng.chance(1, 12) { 0 } else { g_u64(&mut rng).max(1) };
        any_zero |= v == 0;
        b.extend_from_slice(&v.to_le_bytes());
    }
    (b, Some(!any_zero))
}

/// The seekable in-memory writers and readers against a plain position/vector model: a seeded
/// sequence of writes, reads and seeks; contents, position and results must agree after each step.
fn cursor_subject() -> Subject {
    use cc::{Seek, SeekFrom};
    #[derive(Debug, Clone, Copy)]
    enum Sk {
        Start(u32),
        End(i32),
        Current(i32),
    }
    impl Sk {
        fn real(self) -> SeekFrom {
            match self {
                Sk::Start(o) => SeekFrom::Start(o),
                Sk::End(d) => SeekFrom::End(d),
                Sk::Current(d) => SeekFrom::Current(d),
            }
        }
    }
    #[derive(Debug)]
    enum Op {
        Write(Vec<u8>),
        Read(usize),
        Seek(Sk),
    }
    fn ops(rng: &mut Rng) -> (Vec<u8>, Vec<Op>) {
        let n0 = rng.urange(0, 12);
        let init = rng.bytes(n0);
        let k = rng.urange(1, 10);
        let v = (0..k)
            .map(|_| match rng.below(6) {
                0 | 1 | 2 => {
                    let n = rng.urange(0, 6);
                    Op::Write(rng.bytes(n))
                }
                3 => Op::Read(rng.urange(0, 6)),
                4 => Op::Seek(Sk::Start(rng.below(16) as u32)),
                _ => {
                    if rng.coin() {
                        Op::Seek(Sk::End(-(rng.below(6) as i32) + 1))
                    } else {
                        Op::Seek(Sk::Current(rng.below(9) as i32 - 4))
                    }
                }
            })
            .collect();
        (init, v)
    }
    // reference: vector + position; seek as documented (positions beyond the end are an error)
    fn model_seek(len: usize, pos: usize, s: &Sk) -> Result<usize, ()> {
        let target: i64 = match s {
            Sk::Start(o) => *o as i64,
            Sk::End(d) => len as i64 + *d as i64,
            Sk::Current(d) => pos as i64 + *d as i64,
        };
        if target < 0 || target as usize > len {
            Err(())
        } else {
            Ok(target as usize)
        }
    }
    let mut s = cc_subject::<Vec<u8>>("Cursor: write / read / seek against a position model", false, |r| {
        let n = r.urange(0, 4);
        r.bytes(n)
    });
    s.typed = Box::new(|seed, _plan| {
        let mut rng = Rng::new(seed);
        let (init, ops) = ops(&mut rng);
        // (a) Cursor<&mut Vec<u8>>: writes inside overwrite, writes at the end extend
        let mut real = init.clone();
        let mut model = init.clone();
        let mut pos = 0usize;
        let mut cur = cc::Cursor::new(&mut real);
        for (i, op) in ops.iter().enumerate() {
            match op {
                Op::Write(b) => {
                    let r = cc::Write::write(&mut cur, b);
                    let end = pos + b.len();
                    if model.len() < end {
                        model.resize(end, 0);
                    }
                    model[pos..end].copy_from_slice(b);
                    pos = end;
                    if r != Ok(b.len()) {
                        return Err(format!("step {}: write of {} bytes into Cursor<&mut Vec<u8>> returned {:?}", i, b.len(), r));
                    }
                }
                Op::Read(_) => {}
                Op::Seek(sk) => {
                    let want = model_seek(model.len(), pos, sk);
                    let got = cur.seek(sk.real()).map(|x| x as usize);
                    if let Ok(p) = want {
                        pos = p;
                    }
                    if got.map_err(|_| ()) != want {
                        return Err(format!("step {}: seek {:?} on Cursor<&mut Vec<u8>> (len {}) gives {:?}, expected {:?}", i, sk, model.len(), got, want));
                    }
                }
            }
            if cur.offset != pos {
                return Err(format!("step {} {:?}: Cursor<&mut Vec<u8>> position is {}, expected {}", i, op, cur.offset, pos));
            }
            if *cur.data != model {
                return Err(format!("step {} {:?}: Cursor<&mut Vec<u8>> holds {:?}, expected {:?}", i, op, cur.data, model));
            }
        }
        // (b) Cursor<Vec<u8>> as a reader with seeks
        let data = init.clone();
        let mut cur = cc::Cursor::new(data.clone());
        let mut pos = 0usize;
        for (i, op) in ops.iter().enumerate() {
            match op {
                Op::Read(n) => {
                    let mut buf = vec![0u8; *n];
                    let got = cc::Read::read(&mut cur, &mut buf).map_err(|_| ());
                    let k = (*n).min(data.len() - pos);
                    if got != Ok(k) || buf[..k] != data[pos..pos + k] {
                        return Err(format!("step {}: read of {} at {} from Cursor<Vec<u8>> of {} bytes gives {:?} {:?}", i, n, pos, data.len(), got, &buf[..k.min(buf.len())]));
                    }
                    pos += k;
                }
                Op::Write(b) => {
                    // a read of that many bytes instead (keeps the two walks in step)
                    let mut buf = vec![0u8; b.len()];
                    let got = cc::Read::read(&mut cur, &mut buf).map_err(|_| ());
                    let k = b.len().min(data.len() - pos);
                    if got != Ok(k) || buf[..k] != data[pos..pos + k] {
                        return Err(format!("step {}: read of {} at {} from Cursor<Vec<u8>> gives {:?}", i, b.len(), pos, got));
                    }
                    pos += k;
                }
                Op::Seek(sk) => {
                    let want = model_seek(data.len(), pos, sk);
                    let got = cur.seek(sk.real()).map(|x| x as usize).map_err(|_| ());
                    if let Ok(p) = want {
                        pos = p;
                    }
                    if got != want {
                        return Err(format!("step {}: seek {:?} on Cursor<Vec<u8>> (len {}) gives {:?}, expected {:?}", i, sk, data.len(), got, want));
                    }
                }
            }
            if cur.offset != pos {
                return Err(format!("step {} {:?}: Cursor<Vec<u8>> position is {}, expected {}", i, op, cur.offset, pos));
            }
        }
        Ok(())
    });
    s
}
