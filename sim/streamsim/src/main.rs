//! streamsim: decoders and encoders of the three codec layers attached to
//! fault-injecting simulated streams under a counting allocator (C05, C16, C17).
mod cbor_subjects;
mod cc_subjects;

use codeccore::{
    exec::{self, StreamPlan},
    Subject,
};
use simcore::{Ctx, EngineInfo, Recorder, Rng, Scenario, Tier, Violation};

#[global_allocator]
static ALLOC: simcore::alloc::CountingAlloc = simcore::alloc::CountingAlloc;

struct StreamScenario {
    name:     &'static str,
    subjects: Vec<Subject>,
}

impl Scenario for StreamScenario {
    type Plan = StreamPlan;

    fn name(&self) -> &'static str { self.name }

    fn generate(&self, rng: &mut Rng, _tier: Tier) -> StreamPlan { exec::generate(rng, &self.subjects) }

    fn execute(&self, plan: &StreamPlan, rec: &mut Recorder) -> Option<Violation> {
        exec::execute(plan, &self.subjects, rec)
    }

    fn shrink(&self, plan: &StreamPlan) -> Vec<StreamPlan> { exec::shrink(plan) }
}

fn main() {
    let mut ctx = Ctx::from_args("streamsim");
    let prop = ctx.property.clone();
    let (subjects, rule, expl, nq, nt): (Vec<Subject>, &str, &str, u64, u64) = match prop.as_str() {
        "C05" => (
            basesubjects::base_subjects(),
            "one decode of one chain type per run from a simulated byte stream: clean (any chunking, EINTR), cut (EOF / I/O error inside the encoding) or damaged (bit flips, overwrites with extreme values, truncation, splices, trailing bytes), under a counting allocator; non-trivial = a stream fault or damage fired, distinct by event-log fingerprint",
            "C05: round trip and exact consumption on clean streams, failure on cut streams, never a panic, bounded allocation, and whenever damaged bytes decode the value re-encodes to exactly the consumed bytes",
            1_500_000,
            60_000_000,
        ),
        "C16" => (
            cc_subjects::cc_subjects(),
            "one decode or encode of one contracts-common type per run over its own Read/Write seams: short reads, reader errors, EOF inside the encoding, damaged bytes, full or failing writers, under a counting allocator; non-trivial = a fault fired, distinct by event-log fingerprint",
            "C16 (sentence 1): round trip, ordered collections reject unordered/duplicate input (canonical subjects), total and allocation-bounded decoding, writer faults reported",
            30_000_000,
            600_000_000,
        ),
        "C17" => (
            cbor_subjects::cbor_subjects(),
            "one CBOR decode or encode per run over Decoder<SimReader>/Encoder<SimWriter> and the cbor_decode entry point: chunking, EINTR, EOF / error inside the item, damaged bytes (nesting depth <= 64 enforced by a pre-scanner), writer faults, under a counting allocator; non-trivial = a fault fired, distinct by event-log fingerprint",
            "C17 (sentence 1 + determinism): round trip, deterministic encoding across fresh hash seeds, total and allocation-bounded decoding, trailing data rejected, decoded values re-encode stably, writer faults reported",
            6_000_000,
            150_000_000,
        ),
        other => {
            eprintln!("streamsim does not serve property {}", other);
            std::process::exit(2);
        }
    };
    let names: Vec<String> = subjects.iter().map(|s| s.name.clone()).collect();
    let sc = StreamScenario {
        name: "stream",
        subjects,
    };
    let n = ctx.count(nq, nt);
    ctx.run_batch(&sc, n);
    ctx.finish(EngineInfo {
        rule: rule.to_string(),
        explanation: format!("{}; {} subjects: {}", expl, names.len(), names.join(", ")),
        time_unit: "bytes of encoding delivered to decoders",
        state_measure: "not used by this engine (0)",
        fault_kinds: &[
            "short_read_or_write",
            "eintr",
            "eof",
            "io_error",
            "writer_full",
            "bit_flip",
            "overwrite_length_inflation",
            "truncate",
            "splice_insert",
            "splice_delete",
            "splice_duplicate",
            "splice_swap",
            "append_trailing",
            "crafted_encoding",
        ],
        probe_names: &["damaged_accepted", "damaged_rejected"],
        real: vec![
            "concordium_base (common::serialize, transactions, updates, id, encrypted_transfers, cbor, protocol_level_tokens) from /repo's working tree",
            "concordium-contracts-common from /repo's working tree",
        ],
        stub: vec!["byte streams = SimReader/SimWriter (in /verif)", "allocator = counting wrapper around the system allocator"],
        assumptions: vec![
            "values are built by /verif's generators through public constructors; round trip is decided for the values those generators reach".into(),
            format!(
                "allocation oracle thresholds: single request <= {} + {}*input, live growth <= {} + {}*input bytes",
                exec::MAX_SINGLE_REQUEST_BASE,
                exec::MAX_SINGLE_REQUEST_PER_INPUT_BYTE,
                exec::MAX_PEAK_BASE,
                exec::MAX_PEAK_PER_INPUT_BYTE
            ),
        ],
    });
}
