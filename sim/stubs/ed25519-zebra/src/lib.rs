//! STUB of `ed25519-zebra` (not in the offline cache): the API subset used by
//! the smart contract engine, backed by ed25519-dalek. Verdicts on ZIP-215 edge
//! cases may differ from the real crate.
#[derive(Debug, Clone, Copy, PartialEq, Eq)]
pub enum Error {
    MalformedPublicKey,
    InvalidSignature,
    InvalidSliceLength,
}
impl core::fmt::Display for Error {
    fn fmt(&self, f: &mut core::fmt::Formatter<'_>) -> core::fmt::Result { write!(f, "{:?}", self) }
}
impl std::error::Error for Error {}

#[derive(Debug, Clone, Copy)]
pub struct Signature([u8; 64]);

impl Signature {
    pub fn from_bytes(bytes: &[u8; 64]) -> Self { Signature(*bytes) }

    pub fn to_bytes(&self) -> [u8; 64] { self.0 }
}
impl From<[u8; 64]> for Signature {
    fn from(b: [u8; 64]) -> Self { Signature(b) }
}
impl TryFrom<&[u8]> for Signature {
    type Error = Error;

    fn try_from(s: &[u8]) -> Result<Self, Error> {
        let a: [u8; 64] = s.try_into().map_err(|_| Error::InvalidSliceLength)?;
        Ok(Signature(a))
    }
}

#[derive(Debug, Clone, Copy)]
pub struct VerificationKey(ed25519_dalek::VerifyingKey);

impl TryFrom<[u8; 32]> for VerificationKey {
    type Error = Error;

    fn try_from(b: [u8; 32]) -> Result<Self, Error> {
        ed25519_dalek::VerifyingKey::from_bytes(&b)
            .map(VerificationKey)
            .map_err(|_| Error::MalformedPublicKey)
    }
}
impl TryFrom<&[u8]> for VerificationKey {
    type Error = Error;

    fn try_from(s: &[u8]) -> Result<Self, Error> {
        let a: [u8; 32] = s.try_into().map_err(|_| Error::InvalidSliceLength)?;
        Self::try_from(a)
    }
}
impl VerificationKey {
    pub fn verify(&self, signature: &Signature, msg: &[u8]) -> Result<(), Error> {
        let sig = ed25519_dalek::Signature::from_bytes(&signature.0);
        ed25519_dalek::Verifier::verify(&self.0, msg, &sig).map_err(|_| Error::InvalidSignature)
    }
}
impl From<&SigningKey> for VerificationKey {
    fn from(sk: &SigningKey) -> Self { VerificationKey(sk.0.verifying_key()) }
}
impl From<VerificationKey> for [u8; 32] {
    fn from(vk: VerificationKey) -> [u8; 32] { vk.0.to_bytes() }
}

#[derive(Debug, Clone)]
pub struct SigningKey(ed25519_dalek::SigningKey);
impl From<[u8; 32]> for SigningKey {
    fn from(b: [u8; 32]) -> Self { SigningKey(ed25519_dalek::SigningKey::from_bytes(&b)) }
}
impl SigningKey {
    pub fn sign(&self, msg: &[u8]) -> Signature {
        Signature(ed25519_dalek::Signer::sign(&self.0, msg).to_bytes())
    }
}
