//! STUB of `num_enum` for offline verification builds. Only `TryFromPrimitive`
//! for `#[repr(u8)]` field-less enums with implicit/explicit discriminants.
pub use num_enum_derive::TryFromPrimitive;

#[derive(Debug, Clone, Copy, PartialEq, Eq)]
pub struct TryFromPrimitiveError<P> {
    pub number: P,
}
impl<P: core::fmt::Debug> core::fmt::Display for TryFromPrimitiveError<P> {
    fn fmt(&self, f: &mut core::fmt::Formatter<'_>) -> core::fmt::Result {
        write!(f, "No discriminant matches the value `{:?}`", self.number)
    }
}
impl<P: core::fmt::Debug> std::error::Error for TryFromPrimitiveError<P> {}
