use proc_macro::TokenStream;
use quote::quote;
use syn::{parse_macro_input, Data, DeriveInput};

/// Derives `TryFrom<u8>` for a `#[repr(u8)]` field-less enum.
#[proc_macro_derive(TryFromPrimitive, attributes(num_enum))]
pub fn derive_try_from_primitive(input: TokenStream) -> TokenStream {
    let input = parse_macro_input!(input as DeriveInput);
    let name = &input.ident;
    let data = match &input.data {
        Data::Enum(e) => e,
        _ => panic!("TryFromPrimitive stub: only enums"),
    };
    let idents: Vec<_> = data.variants.iter().map(|v| &v.ident).collect();
    let consts: Vec<_> = idents
        .iter()
        .map(|i| quote::format_ident!("__VERIF_{}", i))
        .collect();
    let out = quote! {
        impl ::core::convert::TryFrom<u8> for #name {
            type Error = ::num_enum::TryFromPrimitiveError<u8>;
            #[allow(non_upper_case_globals)]
            fn try_from(number: u8) -> ::core::result::Result<Self, Self::Error> {
                #( const #consts: u8 = #name::#idents as u8; )*
                match number {
                    #( #consts => Ok(#name::#idents), )*
                    _ => Err(::num_enum::TryFromPrimitiveError { number }),
                }
            }
        }
    };
    out.into()
}
