//! STUB of `secp256k1` (not in the offline cache). Length checks only; every
//! `verify_ecdsa` returns `Err`. Declared as a stub in every evidence file.
#[derive(Debug, Clone, Copy, PartialEq, Eq)]
pub enum Error {
    IncorrectSignature,
    InvalidMessage,
    InvalidPublicKey,
    InvalidSignature,
    InvalidSecretKey,
}
impl core::fmt::Display for Error {
    fn fmt(&self, f: &mut core::fmt::Formatter<'_>) -> core::fmt::Result { write!(f, "{:?}", self) }
}
impl std::error::Error for Error {}

pub struct Message([u8; 32]);
impl Message {
    pub fn from_slice(s: &[u8]) -> Result<Self, Error> {
        let a: [u8; 32] = s.try_into().map_err(|_| Error::InvalidMessage)?;
        Ok(Message(a))
    }
}

pub struct PublicKey([u8; 33]);
impl PublicKey {
    pub fn from_slice(s: &[u8]) -> Result<Self, Error> {
        let a: [u8; 33] = s.try_into().map_err(|_| Error::InvalidPublicKey)?;
        if a[0] != 2 && a[0] != 3 {
            return Err(Error::InvalidPublicKey);
        }
        Ok(PublicKey(a))
    }
}

pub struct SecretKey([u8; 32]);
impl SecretKey {
    pub fn from_slice(s: &[u8]) -> Result<Self, Error> {
        let a: [u8; 32] = s.try_into().map_err(|_| Error::InvalidSecretKey)?;
        Ok(SecretKey(a))
    }
}

pub mod ecdsa {
    pub struct Signature(pub(crate) [u8; 64]);
    impl Signature {
        pub fn from_compact(s: &[u8]) -> Result<Self, super::Error> {
            let a: [u8; 64] = s.try_into().map_err(|_| super::Error::InvalidSignature)?;
            Ok(Signature(a))
        }

        pub fn serialize_compact(&self) -> [u8; 64] { self.0 }
    }
}

pub struct VerifyOnly;
pub struct All;
pub struct Secp256k1<C>(core::marker::PhantomData<C>);
impl Secp256k1<VerifyOnly> {
    pub fn verification_only() -> Self { Secp256k1(core::marker::PhantomData) }
}
impl Secp256k1<All> {
    #[allow(clippy::new_without_default)]
    pub fn new() -> Self { Secp256k1(core::marker::PhantomData) }
}
impl<C> Secp256k1<C> {
    pub fn verify_ecdsa(
        &self,
        _msg: &Message,
        _sig: &ecdsa::Signature,
        _pk: &PublicKey,
    ) -> Result<(), Error> {
        let _ = (&_msg.0, &_pk.0, &_sig.0);
        Err(Error::IncorrectSignature)
    }
}
