//! STUB of `slab` for offline verification builds: safe, same key-reuse policy
//! (LIFO free list through vacant entries) as the real crate. The `unchecked`
//! accessors CHECK and panic, so a bad index is a deterministic panic.
#[derive(Debug, Clone)]
enum Entry<T> {
    Vacant(usize),
    Occupied(T),
}

#[derive(Debug, Clone)]
pub struct Slab<T> {
    entries: Vec<Entry<T>>,
    len:     usize,
    next:    usize,
}

impl<T> Default for Slab<T> {
    fn default() -> Self { Self::new() }
}

impl<T> Slab<T> {
    pub const fn new() -> Self {
        Self {
            entries: Vec::new(),
            len:     0,
            next:    0,
        }
    }

    pub fn with_capacity(c: usize) -> Self {
        Self {
            entries: Vec::with_capacity(c),
            len:     0,
            next:    0,
        }
    }

    pub fn len(&self) -> usize { self.len }

    pub fn is_empty(&self) -> bool { self.len == 0 }

    pub fn insert(&mut self, val: T) -> usize {
        let key = self.next;
        self.len += 1;
        if key == self.entries.len() {
            self.entries.push(Entry::Occupied(val));
            self.next = key + 1;
        } else {
            self.next = match self.entries.get(key) {
                Some(&Entry::Vacant(next)) => next,
                _ => unreachable!("slab stub: corrupt free list"),
            };
            self.entries[key] = Entry::Occupied(val);
        }
        key
    }

    pub fn get(&self, key: usize) -> Option<&T> {
        match self.entries.get(key) {
            Some(Entry::Occupied(v)) => Some(v),
            _ => None,
        }
    }

    pub fn get_mut(&mut self, key: usize) -> Option<&mut T> {
        match self.entries.get_mut(key) {
            Some(Entry::Occupied(v)) => Some(v),
            _ => None,
        }
    }

    /// # Safety
    /// Checked in this stub: panics on an invalid key.
    pub unsafe fn get_unchecked(&self, key: usize) -> &T {
        self.get(key).expect("slab stub: get_unchecked on invalid key")
    }

    /// # Safety
    /// Checked in this stub: panics on an invalid key.
    pub unsafe fn get_unchecked_mut(&mut self, key: usize) -> &mut T {
        self.get_mut(key).expect("slab stub: get_unchecked_mut on invalid key")
    }

    pub fn contains(&self, key: usize) -> bool { self.get(key).is_some() }

    pub fn try_remove(&mut self, key: usize) -> Option<T> {
        if let Some(entry) = self.entries.get_mut(key) {
            let prev = std::mem::replace(entry, Entry::Vacant(self.next));
            match prev {
                Entry::Occupied(val) => {
                    self.len -= 1;
                    self.next = key;
                    return Some(val);
                }
                _ => {
                    *entry = prev;
                }
            }
        }
        None
    }

    pub fn remove(&mut self, key: usize) -> T { self.try_remove(key).expect("invalid key") }

    pub fn clear(&mut self) {
        self.entries.clear();
        self.len = 0;
        self.next = 0;
    }

    pub fn iter(&self) -> impl Iterator<Item = (usize, &T)> {
        self.entries.iter().enumerate().filter_map(|(i, e)| match e {
            Entry::Occupied(v) => Some((i, v)),
            _ => None,
        })
    }
}

impl<T> std::ops::Index<usize> for Slab<T> {
    type Output = T;

    fn index(&self, key: usize) -> &T { self.get(key).expect("invalid key") }
}

impl<T> std::ops::IndexMut<usize> for Slab<T> {
    fn index_mut(&mut self, key: usize) -> &mut T { self.get_mut(key).expect("invalid key") }
}
