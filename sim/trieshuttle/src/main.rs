//! trieshuttle: thread schedules over shared persistent trie nodes (C03, C04
//! thorough tier). The trie's `Arc<RwLock<_>>` links and the
//! `Arc<Mutex<MutableTrie>>` are taken from shuttle (hook H2), so one seed is
//! one exactly repeatable interleaving. Roles follow the concurrency the code
//! documents: any number of deriver/reader threads on clones of a shared root
//! and at most one maintenance thread (`store_update`, `cache`).
use concordium_smart_contract_engine::v1::trie::{
    BackingStoreLoad, BackingStoreStore, EmptyCollector, LoadError, LoadResult, Loadable, PersistentState, Reference, WriteError,
};
use serde::{Deserialize, Serialize};
use sha2::{Digest, Sha256};
use shuttle::{
    scheduler::{PctScheduler, RandomScheduler},
    sync::{Arc, Mutex},
    thread, Config, Runner,
};
use simcore::{driver::shrink_vec, hexser, Ctx, EngineInfo, Recorder, Rng, Scenario, Tier, Violation};
use std::collections::BTreeMap;

type Map = BTreeMap<Vec<u8>, Vec<u8>>;

#[derive(Clone, Debug, Serialize, Deserialize, PartialEq)]
enum TOp {
    Lookup {
        #[serde(with = "hexser::bytes")]
        key: Vec<u8>,
    },
    IterAll,
    Hash,
    /// thaw, apply the modifications, freeze; the result must equal the model.
    Derive {
        #[serde(with = "hexser::pairs")]
        inserts: Vec<(Vec<u8>, Vec<u8>)>,
        #[serde(with = "hexser::pairs")]
        deletes: Vec<(Vec<u8>, Vec<u8>)>,
    },
    Serialize,
    CloneDrop,
    // maintenance only
    StoreUpdate,
    Cache,
}

#[derive(Clone, Debug, Serialize, Deserialize)]
struct SPlan {
    #[serde(with = "hexser::pairs")]
    initial:    Vec<(Vec<u8>, Vec<u8>)>,
    /// store (and optionally reload lazily / cache) the shared root before the threads start
    pre_store:  bool,
    pre_reload: bool,
    readers:    Vec<Vec<TOp>>,
    maintenance: Vec<TOp>,
    /// 0 = random scheduler, n>0 = PCT with depth n
    pct_depth:  u32,
    sched_seed: u64,
    /// schedules explored for this workload (all derived from `sched_seed`)
    iterations: u32,
}

#[derive(Default)]
struct Disk {
    data: Vec<u8>,
}

#[derive(Clone)]
struct SharedDisk(Arc<Mutex<Disk>>);

impl BackingStoreStore for SharedDisk {
    fn store_raw(&mut self, data: &[u8]) -> Result<Reference, WriteError> {
        let mut d = self.0.lock().unwrap();
        let off = d.data.len();
        d.data.extend_from_slice(&(data.len() as u64).to_be_bytes());
        d.data.extend_from_slice(data);
        Ok((off as u64).into())
    }
}

impl BackingStoreLoad for SharedDisk {
    type R = Vec<u8>;

    fn load_raw(&mut self, location: Reference) -> LoadResult<Vec<u8>> {
        let d = self.0.lock().unwrap();
        let off: u64 = location.into();
        let off = off as usize;
        if off + 8 > d.data.len() {
            return Err(LoadError::OutOfBoundsRead);
        }
        let len = u64::from_be_bytes(d.data[off..off + 8].try_into().unwrap()) as usize;
        if off + 8 + len > d.data.len() {
            return Err(LoadError::OutOfBoundsRead);
        }
        Ok(d.data[off + 8..off + 8 + len].to_vec())
    }
}

fn nibbles(k: &[u8]) -> Vec<u8> { k.iter().flat_map(|b| [b >> 4, b & 15]).collect() }

fn ref_hash(m: &Map) -> [u8; 32] {
    fn hv(v: &[u8]) -> [u8; 32] {
        let mut h = Sha256::new();
        h.update((v.len() as u64).to_be_bytes());
        h.update(v);
        h.finalize().into()
    }
    fn build(items: &[(Vec<u8>, &Vec<u8>)], d: usize) -> [u8; 32] {
        let (first, last) = (&items[0].0, &items[items.len() - 1].0);
        let mut l = d;
        while l < first.len() && l < last.len() && first[l] == last[l] {
            l += 1;
        }
        let stem = &first[d..l];
        let mut h = Sha256::new();
        let mut rest = items;
        if first.len() == l {
            h.update([1u8]);
            h.update(hv(items[0].1));
            rest = &items[1..];
        } else {
            h.update([0u8]);
        }
        h.update((stem.len() as u64).to_le_bytes());
        let mut packed = Vec::new();
        let mut i = 0;
        while i < stem.len() {
            packed.push((stem[i] << 4) | if i + 1 < stem.len() { stem[i + 1] } else { 0 });
            i += 2;
        }
        h.update(&packed);
        let mut groups = Vec::new();
        let mut i = 0;
        while i < rest.len() {
            let nb = rest[i].0[l];
            let mut j = i + 1;
            while j < rest.len() && rest[j].0[l] == nb {
                j += 1;
            }
            groups.push((nb, i, j));
            i = j;
        }
        let mut ch = Sha256::new();
        ch.update((groups.len() as u16).to_be_bytes());
        for (nb, i, j) in groups {
            ch.update([nb]);
            ch.update(build(&rest[i..j], l + 1));
        }
        h.update(ch.finalize());
        h.finalize().into()
    }
    if m.is_empty() {
        return Sha256::digest(b"empty contract state").into();
    }
    let items: Vec<(Vec<u8>, &Vec<u8>)> = m.iter().map(|(k, v)| (nibbles(k), v)).collect();
    build(&items, 0)
}

fn fail(slot: &std::sync::Arc<std::sync::Mutex<Option<Violation>>>, oracle: &str, sig: &str, detail: String) -> ! {
    let mut g = slot.lock().unwrap();
    if g.is_none() {
        *g = Some(Violation::new(oracle, sig, detail, 0));
    }
    drop(g);
    panic!("oracle failed");
}

fn check_root(
    ps: &PersistentState,
    model: &Map,
    disk: &mut SharedDisk,
    who: &str,
    slot: &std::sync::Arc<std::sync::Mutex<Option<Violation>>>,
) {
    let all: Vec<(Vec<u8>, Vec<u8>)> = ps.clone().into_iterator(disk).collect();
    let want: Vec<(Vec<u8>, Vec<u8>)> = model.iter().map(|(k, v)| (k.clone(), v.clone())).collect();
    if all != want {
        fail(
            slot,
            "thread-observation",
            "thread/iteration",
            format!("{}: iteration of a shared persistent state yields {} entries, its model has {}", who, all.len(), want.len()),
        );
    }
    let h = ps.hash(disk);
    let hb: &[u8] = h.as_ref();
    if hb != ref_hash(model) {
        fail(slot, "thread-observation", "thread/hash", format!("{}: hash differs from the reference hash", who));
    }
}

fn scenario(plan: SPlan, slot: std::sync::Arc<std::sync::Mutex<Option<Violation>>>) {
    let disk = SharedDisk(Arc::new(Mutex::new(Disk::default())));
    let mut m0 = Map::new();
    for (k, v) in &plan.initial {
        m0.insert(k.clone(), v.clone());
    }
    let mut root = PersistentState::from_iterator(plan.initial.iter().map(|(k, v)| (&k[..], v.clone())));
    if plan.pre_store {
        let mut d = disk.clone();
        let r = root.store_update(&mut d).expect("store");
        if plan.pre_reload {
            root = PersistentState::load_from_location(&mut d, r).expect("load");
        }
    }
    let m0 = std::sync::Arc::new(m0);
    let mut handles = Vec::new();
    for (ti, ops) in plan.readers.iter().enumerate() {
        let ops = ops.clone();
        let my_root = root.clone();
        let mut d = disk.clone();
        let m0 = m0.clone();
        let slot = slot.clone();
        handles.push(thread::spawn(move || {
            let who = format!("reader {}", ti);
            for op in ops {
                match op {
                    TOp::Lookup { key } => {
                        let got = my_root.lookup(&mut d, &key);
                        if got.as_ref() != m0.get(&key) {
                            fail(
                                &slot,
                                "thread-observation",
                                "thread/lookup",
                                format!("{}: lookup({}) = {:?}, model {:?}", who, hex::encode(&key), got.map(hex::encode), m0.get(&key).map(hex::encode)),
                            );
                        }
                    }
                    TOp::IterAll | TOp::Hash => check_root(&my_root, &m0, &mut d, &who, &slot),
                    TOp::Derive { inserts, deletes } => {
                        let mut ms = my_root.thaw();
                        let mut model = (*m0).clone();
                        {
                            let inner = ms.get_inner(&mut d);
                            let mut t = inner.lock();
                            for (k, v) in &inserts {
                                t.insert(&mut d, k, v.clone()).expect("no locks");
                                model.insert(k.clone(), v.clone());
                            }
                            for (k, _) in &deletes {
                                let _ = t.delete(&mut d, k).expect("no locks");
                                model.remove(k);
                            }
                        }
                        let derived = ms.freeze(&mut d, &mut EmptyCollector);
                        check_root(&derived, &model, &mut d, &format!("{} (derived state)", who), &slot);
                        // the shared origin is immutable
                        check_root(&my_root, &m0, &mut d, &format!("{} (origin after deriving)", who), &slot);
                    }
                    TOp::Serialize => {
                        let mut out = Vec::new();
                        my_root.serialize(&mut d, &mut out).expect("serialize");
                        let back = PersistentState::deserialize(&mut &out[..]).expect("deserialize");
                        check_root(&back, &m0, &mut d, &format!("{} (deserialized)", who), &slot);
                    }
                    TOp::CloneDrop => {
                        let c = my_root.clone();
                        thread::sleep(std::time::Duration::from_millis(0));
                        drop(c);
                    }
                    TOp::StoreUpdate | TOp::Cache => {}
                }
                thread::sleep(std::time::Duration::from_millis(0));
            }
        }));
    }
    // the single maintenance thread
    let stored: Arc<Mutex<Option<Reference>>> = Arc::new(Mutex::new(None));
    {
        let ops = plan.maintenance.clone();
        let mut my_root = root.clone();
        let mut d = disk.clone();
        let stored = stored.clone();
        let slot = slot.clone();
        handles.push(thread::spawn(move || {
            for op in ops {
                match op {
                    TOp::StoreUpdate => match my_root.store_update(&mut d) {
                        Ok(r) => *stored.lock().unwrap() = Some(r),
                        Err(e) => fail(&slot, "thread-persist", "thread/store-failed", format!("store_update failed: {}", e)),
                    },
                    TOp::Cache => my_root.cache(&mut d),
                    _ => {}
                }
                thread::sleep(std::time::Duration::from_millis(0));
            }
        }));
    }
    for h in handles {
        if h.join().is_err() {
            panic!("a thread panicked");
        }
    }
    // after joining: the shared root still equals its model, and what was stored loads back
    let mut d = disk.clone();
    check_root(&root, &m0, &mut d, "main (after join)", &slot);
    let r = *stored.lock().unwrap();
    if let Some(r) = r {
        match PersistentState::load_from_location(&mut d, r) {
            Ok(loaded) => check_root(&loaded, &m0, &mut d, "main (restart: loaded from the store)", &slot),
            Err(e) => fail(&slot, "thread-persist", "thread/load-after-store", format!("cannot load the stored root: {}", e)),
        }
    }
}

struct ShuttleScenario;

fn g_key(rng: &mut Rng) -> Vec<u8> {
    let n = rng.urange(0, 3);
    (0..n).map(|_| *rng.pick(&[0x00u8, 0x10, 0x11, 0x12, 0xff])).collect()
}

fn g_val(rng: &mut Rng) -> Vec<u8> {
    let n = *rng.pick(&[0usize, 1, 8, 64, 65, 100]);
    rng.bytes(n)
}

impl Scenario for ShuttleScenario {
    type Plan = SPlan;

    fn name(&self) -> &'static str { "threads" }

    fn generate(&self, rng: &mut Rng, _tier: Tier) -> SPlan {
        let ninit = rng.urange(1, 8);
        let initial: Vec<(Vec<u8>, Vec<u8>)> = (0..ninit).map(|_| (g_key(rng), g_val(rng))).collect();
        let nreaders = rng.urange(1, 3);
        let readers = (0..nreaders)
            .map(|_| {
                let n = rng.urange(1, 4);
                (0..n)
                    .map(|_| match rng.below(8) {
                        0 | 1 => TOp::Lookup { key: g_key(rng) },
                        2 => TOp::IterAll,
                        3 => TOp::Hash,
                        4 | 5 => TOp::Derive {
                            inserts: (0..rng.urange(0, 3)).map(|_| (g_key(rng), g_val(rng))).collect(),
                            deletes: (0..rng.urange(0, 2)).map(|_| (g_key(rng), Vec::new())).collect(),
                        },
                        6 => TOp::Serialize,
                        _ => TOp::CloneDrop,
                    })
                    .collect()
            })
            .collect();
        let nm = rng.urange(0, 3);
        let maintenance = (0..nm).map(|_| if rng.chance(2, 3) { TOp::StoreUpdate } else { TOp::Cache }).collect();
        SPlan {
            initial,
            pre_store: rng.coin(),
            pre_reload: rng.coin(),
            readers,
            maintenance,
            pct_depth: if rng.coin() { 0 } else { rng.range(1, 3) as u32 },
            sched_seed: rng.next_u64(),
            iterations: 40,
        }
    }

    fn execute(&self, plan: &SPlan, rec: &mut Recorder) -> Option<Violation> {
        rec.op();
        let slot: std::sync::Arc<std::sync::Mutex<Option<Violation>>> = std::sync::Arc::new(std::sync::Mutex::new(None));
        let mut cfg = Config::new();
        cfg.silence_warnings = true;
        let p = plan.clone();
        let s2 = slot.clone();
        let r = std::panic::catch_unwind(std::panic::AssertUnwindSafe(|| {
            if plan.pct_depth == 0 {
                Runner::new(RandomScheduler::new_from_seed(plan.sched_seed, plan.iterations as usize), cfg).run(move || scenario(p.clone(), s2.clone()));
            } else {
                Runner::new(PctScheduler::new_from_seed(plan.sched_seed, plan.pct_depth as usize, plan.iterations as usize), cfg)
                    .run(move || scenario(p.clone(), s2.clone()));
            }
        }));
        let nthreads = plan.readers.len() + 1;
        rec.tick(plan.readers.iter().map(|r| r.len() as u64).sum::<u64>() + plan.maintenance.len() as u64);
        rec.log_u64(plan.sched_seed);
        rec.tick(plan.iterations as u64);
        if nthreads > 1 {
            rec.fault("thread_interleaving");
        }
        if !plan.maintenance.is_empty() {
            rec.fault("store_or_cache_racing_readers");
        }
        match r {
            Ok(()) => None,
            Err(e) => {
                if let Some(v) = slot.lock().unwrap().take() {
                    return Some(v);
                }
                let msg = if let Some(s) = e.downcast_ref::<String>() {
                    s.clone()
                } else if let Some(s) = e.downcast_ref::<&str>() {
                    s.to_string()
                } else {
                    "panic".into()
                };
                let short: String = msg.chars().take(300).collect();
                let sig = if msg.contains("deadlock") { "thread/deadlock" } else { "thread/panic" };
                Some(Violation::new("thread-panic", sig, format!("under schedule seed {}: {}", plan.sched_seed, short), 0))
            }
        }
    }

    fn shrink(&self, plan: &SPlan) -> Vec<SPlan> {
        let mut out = Vec::new();
        for (i, r) in plan.readers.iter().enumerate() {
            for ops in shrink_vec(r) {
                let mut p = plan.clone();
                p.readers[i] = ops;
                out.push(p);
            }
        }
        if plan.readers.len() > 1 {
            for rs in shrink_vec(&plan.readers) {
                if !rs.is_empty() {
                    let mut p = plan.clone();
                    p.readers = rs;
                    out.push(p);
                }
            }
        }
        for ops in shrink_vec(&plan.maintenance) {
            let mut p = plan.clone();
            p.maintenance = ops;
            out.push(p);
        }
        for init in shrink_vec(&plan.initial) {
            if !init.is_empty() {
                let mut p = plan.clone();
                p.initial = init;
                out.push(p);
            }
        }
        out
    }
}

fn main() {
    let mut ctx = Ctx::from_args("trieshuttle");
    let n = ctx.count(12_000, 600_000);
    ctx.run_batch(&ShuttleScenario, n);
    let prop = ctx.property.clone();
    ctx.finish(EngineInfo {
        rule: "seeded (workload, schedule) pairs: 1-3 deriver/reader threads (lookup, full iteration, hash, thaw+modify+freeze, serialize/deserialize, clone/drop) on clones of one shared persistent root and one maintenance thread (store_update, cache), run under shuttle's random or PCT scheduler (depth 1-3), 40 schedules per workload, all derived from the plan's schedule seed; non-trivial = more than one thread ran, distinct by (workload, schedule seed) fingerprint".into(),
        explanation: format!("{} thread mode: persistent values are immutable, so every thread's observations (lookups, iteration, hash, derived states) must equal the model of the root it holds while another thread stores/caches the same nodes; no deadlock, no panic; after joining, the shared root still equals its model and what was stored loads back (restart) with equal contents and hash", prop),
        time_unit: "thread operations",
        state_measure: "not used by this engine (0)",
        fault_kinds: &["thread_interleaving", "store_or_cache_racing_readers"],
        probe_names: &[],
        real: vec!["concordium-smart-contract-engine v1::trie compiled with hook H2 (shuttle's Arc/RwLock/Mutex)"],
        stub: vec!["backing store = in-memory SharedDisk behind a shuttle Mutex", "slab (stub crate)"],
        assumptions: vec![
            "shuttle::sync::Arc is std's Arc: races on the reference count itself (concurrent Drop for Node) are not explored".into(),
            "at most one maintenance thread, as in the deployment (the node stores under its global state lock); two concurrent storers are outside the documented concurrency (DESIGN.md OB1)".into(),
        ],
    });
}
