use concordium_smart_contract_engine::v1::trie::*;
fn main() {
    let kvs: Vec<(Vec<u8>, Vec<u8>)> = vec![(vec![0x10], vec![1; 70]), (vec![0x20], vec![2; 70]), (vec![0x20, 0x30], vec![3])];
    let mut ps = PersistentState::from_iterator(kvs.iter().map(|(k, v)| (&k[..], v.clone())));
    let mut a: Vec<u8> = Vec::new();
    for variant in ["memory", "stored", "cached"] {
        let mut src = ps.clone();
        if variant == "cached" {
            let mut l = Loader::new(&a[..]);
            src.cache(&mut l);
        }
        let mut b: Vec<u8> = vec![0xEE; 1000];
        let new = { let mut l = Loader::new(a.clone()); src.migrate(&mut b, &mut l).expect("migrate") };
        let mut lb = Loader::new(&b[..]);
        println!("{variant}: new lookup 0x20 -> {:?}", new.lookup(&mut lb, &[0x20]).map(|v| v.len()));
        let r = std::panic::catch_unwind(std::panic::AssertUnwindSafe(|| {
            let mut la = Loader::new(&a[..]);
            src.lookup(&mut la, &[0x20]).map(|v| v.len())
        }));
        println!("{variant}: source lookup 0x20 with OLD loader after migrate -> {:?}", r.map_err(|_| "PANIC"));
        let r = std::panic::catch_unwind(std::panic::AssertUnwindSafe(|| {
            let mut la = Loader::new(&a[..]);
            ps.lookup(&mut la, &[0x20]).map(|v| v.len())
        }));
        println!("{variant}: sibling clone lookup with OLD loader -> {:?}", r.map_err(|_| "PANIC"));
        if variant == "memory" {
            // rebuild since source was clobbered
            ps = PersistentState::from_iterator(kvs.iter().map(|(k, v)| (&k[..], v.clone())));
            ps.store_update(&mut a).unwrap();
        }
        if variant == "stored" {
            ps = PersistentState::from_iterator(kvs.iter().map(|(k, v)| (&k[..], v.clone())));
            a.clear();
            ps.store_update(&mut a).unwrap();
        }
    }
}
