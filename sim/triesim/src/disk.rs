//! Simulated append-only blob store with a durable watermark, injected store
//! errors and crashes. Implements the trie's `BackingStoreStore`/`Load` seams.
use concordium_smart_contract_engine::v1::trie::{
    BackingStoreLoad, BackingStoreStore, LoadError, LoadResult, Reference, WriteError,
};
use serde::{Deserialize, Serialize};

#[derive(Clone, Copy, Debug, Serialize, Deserialize, PartialEq)]
pub enum StoreFault {
    /// The k-th `store_raw` of the operation fails, nothing is appended (EIO/ENOSPC).
    ErrBefore { k: u32 },
    /// The k-th `store_raw` appends the blob but reports failure (lost ack).
    ErrAfter { k: u32 },
}

#[derive(Default)]
pub struct DiskStats {
    pub stores:      u64,
    pub loads:       u64,
    pub err_before:  u64,
    pub err_after:   u64,
    pub bytes:       u64,
}

#[derive(Default)]
pub struct SimDisk {
    pub data:    Vec<u8>,
    /// Everything below this offset survives a crash.
    pub durable: usize,
    fault:       Option<StoreFault>,
    calls:       u32,
    pub fired:   bool,
    pub stats:   DiskStats,
}

impl SimDisk {
    pub fn new() -> Self { Self::default() }

    pub fn arm(&mut self, f: Option<StoreFault>) {
        self.fault = f;
        self.calls = 0;
        self.fired = false;
    }

    pub fn disarm(&mut self) -> bool {
        self.fault = None;
        let f = self.fired;
        self.fired = false;
        f
    }

    pub fn sync(&mut self) { self.durable = self.data.len(); }

    /// Crash: un-synced suffix is lost, or torn at `torn_permille` of it.
    pub fn crash(&mut self, torn_permille: Option<u32>) -> usize {
        let unsynced = self.data.len() - self.durable;
        let keep = match torn_permille {
            Some(p) => (unsynced as u64 * p.min(1000) as u64 / 1000) as usize,
            None => 0,
        };
        let lost = unsynced - keep;
        self.data.truncate(self.durable + keep);
        lost
    }

    pub fn is_durable(&self, r: Reference) -> bool {
        let off: u64 = r.into();
        let off = off as usize;
        if off + 8 > self.durable {
            return false;
        }
        let len = u64::from_be_bytes(self.data[off..off + 8].try_into().unwrap()) as usize;
        off + 8 + len <= self.durable
    }
}

impl BackingStoreStore for SimDisk {
    fn store_raw(&mut self, data: &[u8]) -> Result<Reference, WriteError> {
        let k = self.calls;
        self.calls += 1;
        self.stats.stores += 1;
        match self.fault {
            Some(StoreFault::ErrBefore { k: fk }) if fk == k => {
                self.fired = true;
                self.stats.err_before += 1;
                return Err(WriteError::IOError(std::io::Error::new(
                    std::io::ErrorKind::Other,
                    "injected store error (nothing written)",
                )));
            }
            _ => {}
        }
        let off = self.data.len();
        self.data.extend_from_slice(&(data.len() as u64).to_be_bytes());
        self.data.extend_from_slice(data);
        self.stats.bytes += data.len() as u64 + 8;
        if let Some(StoreFault::ErrAfter { k: fk }) = self.fault {
            if fk == k {
                self.fired = true;
                self.stats.err_after += 1;
                return Err(WriteError::IOError(std::io::Error::new(
                    std::io::ErrorKind::Other,
                    "injected store error (written, ack lost)",
                )));
            }
        }
        Ok((off as u64).into())
    }
}

impl BackingStoreLoad for SimDisk {
    type R = Vec<u8>;

    fn load_raw(&mut self, location: Reference) -> LoadResult<Self::R> {
        self.stats.loads += 1;
        let off: u64 = location.into();
        let off = off as usize;
        if off.checked_add(8).map_or(true, |e| e > self.data.len()) {
            return Err(LoadError::OutOfBoundsRead);
        }
        let len = u64::from_be_bytes(self.data[off..off + 8].try_into().unwrap()) as usize;
        let end = match (off + 8).checked_add(len) {
            Some(e) if e <= self.data.len() => e,
            _ => return Err(LoadError::OutOfBoundsRead),
        };
        Ok(self.data[off + 8..end].to_vec())
    }
}

/// Loaders are passed by value in the v1 interface: a mutable reference is a loader too.
impl BackingStoreLoad for &mut SimDisk {
    type R = Vec<u8>;

    fn load_raw(&mut self, location: Reference) -> LoadResult<Self::R> { (**self).load_raw(location) }
}
