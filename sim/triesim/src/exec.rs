//! Executes a `TriePlan` step by step against the real trie and the reference
//! models, checking the oracles that gate for the plan's focus.
use crate::{
    disk::SimDisk,
    model::{self, keys_with_prefix, locked_for_key, locked_for_prefix, Map},
    plan::*,
};
use concordium_smart_contract_engine::v1::trie::{
    low_level::verif_hooks::{VerifBudget, VerifIterator},
    EmptyCollector, EntryId, Loadable, MutableState, MutableTrie, PersistentState, Reference, SizeCollector,
};
use simcore::{
    faultio::{SimReader, SimWriter},
    Recorder, Violation,
};
use std::{collections::BTreeMap, rc::Rc};

const LIMITED_BUDGET: u64 = 1 << 39;
const MAX_GENS: usize = 6;
const MAX_ITERS: usize = 8;
const MAX_HANDLES: usize = 64;
const REGISTRY_CAP: usize = 10;

pub enum Stop {
    Violation(Violation),
    /// The code disagreed with the model on something this property does not
    /// claim; the run ends without a verdict (the owning property's check
    /// reports it).
    OutOfFocus,
}

type Step<T = ()> = Result<T, Stop>;

#[derive(Clone, Copy, PartialEq, Eq, Debug)]
enum Oracle {
    Map,
    Handle,
    FullCheck,
    Leak,
    Iter,
    Lock,
    LockNoChange,
    RootContent,
    Hash,
    Persist,
    RoundTrip,
    Collector,
    Fault,
}

impl Oracle {
    fn name(self) -> &'static str {
        match self {
            Oracle::Map => "map",
            Oracle::Handle => "handle",
            Oracle::FullCheck => "fullcheck",
            Oracle::Leak => "leak",
            Oracle::Iter => "iter",
            Oracle::Lock => "lock",
            Oracle::LockNoChange => "lock-nochange",
            Oracle::RootContent => "root-content",
            Oracle::Hash => "hash",
            Oracle::Persist => "persist",
            Oracle::RoundTrip => "roundtrip",
            Oracle::Collector => "collector",
            Oracle::Fault => "fault",
        }
    }

    fn gates(self, f: Focus) -> bool {
        use Oracle::*;
        match (self, f) {
            (Map | FullCheck | Leak, Focus::Map) => true,
            (Handle | Iter, Focus::Map | Focus::Locks) => true,
            (Lock | LockNoChange, Focus::Locks) => true,
            (RootContent, Focus::Map | Focus::Persist) => true,
            (Hash | Persist | RoundTrip | Collector | Fault, Focus::Persist) => true,
            _ => false,
        }
    }
}

struct RootObj {
    ps:         PersistentState,
    model:      Rc<Map>,
    disk:       usize,
    family:     u32,
    stored:     Option<Reference>,
    registered: bool,
    /// Loaded from disk and never cached: operations on it exercise lazy loading.
    lazy:       bool,
}

struct Durable {
    reference: Reference,
    disk:      usize,
    model:     Rc<Map>,
    slot:      usize,
}

struct Handle {
    id:  EntryId,
    key: Vec<u8>,
    uid: u64,
}

struct IterModel {
    real:    VerifIterator,
    prefix:  Vec<u8>,
    keys:    Vec<Vec<u8>>,
    pos:     usize,
    deleted: bool,
}

#[derive(Default)]
struct GenModel {
    map:     BTreeMap<Vec<u8>, (Vec<u8>, u64)>,
    locks:   Vec<Vec<u8>>,
    handles: Vec<Handle>,
    iters:   Vec<IterModel>,
    dirty:   bool,
}

enum MutReal {
    /// Stack of `MutableState`s, one per generation (newest last).
    Api(Vec<MutableState>, Vec<bool>),
    Low(Option<MutableTrie>),
}

struct MutObj {
    real:   MutReal,
    disk:   usize,
    family: u32,
    gens:   Vec<GenModel>,
    /// The newest generation was aborted by a budget error: only rollback / drop apply.
    dead:   bool,
    origin: Option<(PersistentState, Rc<Map>)>,
    /// For the leak signature: was the outer state untouched when the newest generation was made?
    untouched_outer: Vec<bool>,
}

pub struct World<'a> {
    disks:       [SimDisk; 2],
    roots:       Vec<Option<RootObj>>,
    muts:        Vec<Option<MutObj>>,
    registry:    Vec<Durable>,
    next_uid:    u64,
    next_family: u32,
    step:        usize,
    focus:       Focus,
    rec:         &'a mut Recorder,
}

fn fail<T>(focus: Focus, step: usize, o: Oracle, sig: impl Into<String>, detail: impl Into<String>) -> Step<T> {
    if o.gates(focus) {
        Err(Stop::Violation(Violation::new(o.name(), sig, detail, step)))
    } else {
        Err(Stop::OutOfFocus)
    }
}

fn plain(m: &BTreeMap<Vec<u8>, (Vec<u8>, u64)>) -> Map { m.iter().map(|(k, v)| (k.clone(), v.0.clone())).collect() }

fn hx(b: &[u8]) -> String {
    if b.len() > 24 {
        format!("{}…({}B)", hex::encode(&b[..24]), b.len())
    } else {
        hex::encode(b)
    }
}

fn with_trie<R>(
    real: &mut MutReal,
    disk: &mut SimDisk,
    f: impl FnOnce(&mut MutableTrie, &mut SimDisk) -> R,
) -> R {
    match real {
        MutReal::Api(stack, touched) => {
            let n = stack.len();
            touched[n - 1] = true;
            let top = stack.last_mut().expect("non-empty stack");
            let inner = top.get_inner(disk);
            let mut g = inner.lock();
            f(&mut g, disk)
        }
        MutReal::Low(t) => f(t.as_mut().expect("live trie"), disk),
    }
}

impl<'a> World<'a> {
    pub fn new(focus: Focus, rec: &'a mut Recorder) -> Self {
        World {
            disks: [SimDisk::new(), SimDisk::new()],
            roots: (0..NROOTS).map(|_| None).collect(),
            muts: (0..NMUTS).map(|_| None).collect(),
            registry: Vec::new(),
            next_uid: 1,
            next_family: 1,
            step: 0,
            focus,
            rec,
        }
    }


    fn family(&mut self) -> u32 {
        self.next_family += 1;
        self.next_family
    }

    fn uid(&mut self) -> u64 {
        self.next_uid += 1;
        self.next_uid
    }

    fn log_res(&mut self, tag: &str, x: &[u8]) {
        self.rec.log_str(tag);
        self.rec.log_bytes(x);
    }

    // ---- checks -----------------------------------------------------------

    fn check_root(&mut self, slot: usize, ctx: &str) -> Step {
        let r = match self.roots[slot].as_ref() {
            Some(r) => r,
            None => return Ok(()),
        };
        let ps = r.ps.clone();
        let model = r.model.clone();
        let disk = r.disk;
        self.check_ps(&ps, &model, disk, ctx)
    }

    fn check_ps(&mut self, ps: &PersistentState, model: &Map, disk: usize, ctx: &str) -> Step {
        for (k, v) in model.iter() {
            let got = ps.lookup(&mut self.disks[disk], k);
            if got.as_deref() != Some(&v[..]) {
                return fail(self.focus, self.step, 
                    Oracle::RootContent,
                    format!("root-content/lookup/{}", ctx),
                    format!("persistent lookup({}) = {:?}, model = {}", hx(k), got.map(|g| hx(&g)), hx(v)),
                );
            }
            // an absent neighbour
            let mut k2 = k.clone();
            k2.push(0x5a);
            if !model.contains_key(&k2) {
                if let Some(g) = ps.lookup(&mut self.disks[disk], &k2) {
                    return fail(self.focus, self.step, 
                        Oracle::RootContent,
                        format!("root-content/lookup-absent/{}", ctx),
                        format!("persistent lookup({}) = {}, model has no such key", hx(&k2), hx(&g)),
                    );
                }
            }
        }
        let all: Vec<(Vec<u8>, Vec<u8>)> = ps.clone().into_iterator(&mut self.disks[disk]).collect();
        let want: Vec<(Vec<u8>, Vec<u8>)> = model.iter().map(|(k, v)| (k.clone(), v.clone())).collect();
        if all != want {
            return fail(self.focus, self.step, 
                Oracle::RootContent,
                format!("root-content/iteration/{}", ctx),
                format!(
                    "persistent iteration yields {} entries {:?}, model has {} {:?}",
                    all.len(),
                    all.iter().take(6).map(|(k, _)| hx(k)).collect::<Vec<_>>(),
                    want.len(),
                    want.iter().take(6).map(|(k, _)| hx(k)).collect::<Vec<_>>()
                ),
            );
        }
        self.rec.log_u64(all.len() as u64);
        if self.focus == Focus::Persist {
            self.check_hash(ps, model, disk, ctx)?;
        }
        Ok(())
    }

    fn check_hash(&mut self, ps: &PersistentState, model: &Map, disk: usize, ctx: &str) -> Step {
        let h = ps.hash(&mut self.disks[disk]);
        let h: &[u8] = h.as_ref();
        let (want, shape) = model::reference_hash_and_shape(model);
        self.rec.state(shape);
        self.rec.log_bytes(h);
        if h != want {
            return fail(self.focus, self.step, 
                Oracle::Hash,
                format!("hash/{}", ctx),
                format!(
                    "state hash {} differs from the reference Merkle construction {} over {} keys",
                    hex::encode(h),
                    hex::encode(want),
                    model.len()
                ),
            );
        }
        Ok(())
    }

    /// Full comparison of the newest generation of a mutable object.
    fn check_mut(&mut self, m: usize, ctx: &str, oracle: Oracle) -> Step {
        let obj = match self.muts[m].as_mut() {
            Some(o) if !o.dead => o,
            _ => return Ok(()),
        };
        let disk = obj.disk;
        let want = plain(&obj.gens.last().unwrap().map);
        let d = &mut self.disks[disk];
        // lookups
        let mut bad: Option<String> = None;
        with_trie(&mut obj.real, d, |t, d| {
            for (k, v) in want.iter() {
                let got = t.get_entry(d, k).and_then(|e| t.with_entry(e, d, |x| x.to_vec()));
                if got.as_deref() != Some(&v[..]) {
                    bad = Some(format!("get({}) = {:?}, model = {}", hx(k), got.map(|g| hx(&g)), hx(v)));
                    return;
                }
                if !k.is_empty() {
                    let k2 = &k[..k.len() - 1];
                    if !want.contains_key(k2) && t.get_entry(d, k2).is_some() {
                        bad = Some(format!("get({}) found an entry, model has none", hx(k2)));
                        return;
                    }
                }
            }
            // full iteration
            match t.verif_iter(d, &[]) {
                Err(_) => bad = Some("iter(\"\") failed with TooManyIterators".into()),
                Ok(None) => {
                    if !want.is_empty() {
                        bad = Some(format!("iter(\"\") = None but model has {} keys", want.len()));
                    }
                }
                Ok(Some(mut it)) => {
                    let mut got = Vec::new();
                    let mut b = VerifBudget(u64::MAX);
                    loop {
                        match t.verif_next(d, &mut it, &mut b) {
                            Ok(Some(e)) => {
                                let k = it.get_key().to_vec();
                                let v = t.with_entry(e, d, |x| x.to_vec());
                                got.push((k, v));
                            }
                            Ok(None) => break,
                            Err(_) => {
                                bad = Some("unbounded budget exhausted".into());
                                break;
                            }
                        }
                        if got.len() > want.len() + 4 {
                            break;
                        }
                    }
                    if !t.verif_delete_iter(&it) {
                        bad = Some("delete_iter of the checking iterator returned false".into());
                    }
                    let wantv: Vec<(Vec<u8>, Option<Vec<u8>>)> =
                        want.iter().map(|(k, v)| (k.clone(), Some(v.clone()))).collect();
                    if bad.is_none() && got != wantv {
                        bad = Some(format!(
                            "iteration yields {} entries {:?}, model has {} {:?}",
                            got.len(),
                            got.iter().take(8).map(|(k, _)| hx(k)).collect::<Vec<_>>(),
                            wantv.len(),
                            wantv.iter().take(8).map(|(k, _)| hx(k)).collect::<Vec<_>>()
                        ));
                    }
                }
            }
        });
        self.rec.log_u64(want.len() as u64);
        if let Some(b) = bad {
            let sig = match oracle {
                Oracle::Leak => {
                    let uo = self.muts[m].as_ref().map_or(false, |o| *o.untouched_outer.last().unwrap_or(&false));
                    format!("leak/{}/{}", ctx, if uo { "untouched-outer" } else { "touched-outer" })
                }
                _ => format!("{}/{}", oracle.name(), ctx),
            };
            return fail(self.focus, self.step, oracle, sig, format!("{}: {}", ctx, b));
        }
        Ok(())
    }

    fn check_origin(&mut self, m: usize) -> Step {
        let (ps, model, disk) = match self.muts[m].as_ref() {
            Some(o) => match &o.origin {
                Some((ps, model)) => (ps.clone(), model.clone(), o.disk),
                None => return Ok(()),
            },
            None => return Ok(()),
        };
        match self.check_ps(&ps, &model, disk, "origin-of-mutable") {
            Err(Stop::Violation(mut v)) if v.oracle == "root-content" && Oracle::Leak.gates(self.focus) => {
                v.oracle = "leak".into();
                v.signature = "leak/persistent-root".into();
                v.detail = format!("the persistent state a mutable state was thawed from changed: {}", v.detail);
                Err(Stop::Violation(v))
            }
            other => other,
        }
    }

    // ---- registry / restart ----------------------------------------------

    fn register_durable(&mut self) {
        for slot in 0..NROOTS {
            if let Some(r) = self.roots[slot].as_mut() {
                if let Some(reference) = r.stored {
                    if !r.registered && self.disks[r.disk].is_durable(reference) {
                        r.registered = true;
                        self.registry.push(Durable {
                            reference,
                            disk: r.disk,
                            model: r.model.clone(),
                            slot,
                        });
                    }
                }
            }
        }
        if self.registry.len() > REGISTRY_CAP {
            let n = self.registry.len() - REGISTRY_CAP;
            self.registry.drain(0..n);
        }
    }

    fn drop_family(&mut self, family: u32) {
        for r in self.roots.iter_mut() {
            if r.as_ref().map_or(false, |x| x.family == family) {
                *r = None;
            }
        }
        for m in self.muts.iter_mut() {
            if m.as_ref().map_or(false, |x| x.family == family) {
                *m = None;
            }
        }
    }

    // ---- operations -------------------------------------------------------

    pub fn apply(&mut self, op: &Op) -> Step {
        self.rec.op();
        self.rec.tick(1);
        self.rec.log_str(op.kind());
        match op {
            Op::FromIter { dst, kvs } => {
                let ps = PersistentState::from_iterator(kvs.iter().map(|(k, v)| (&k[..], v.clone())));
                let mut model = Map::new();
                for (k, v) in kvs {
                    model.insert(k.clone(), v.clone());
                }
                let family = self.family();
                self.roots[*dst] = Some(RootObj {
                    ps,
                    model: Rc::new(model),
                    disk: 0,
                    family,
                    stored: None,
                    registered: false,
                    lazy: false,
                });
                Ok(())
            }
            Op::Lookup { root, key } => {
                let r = match self.roots[*root].as_ref() {
                    Some(r) => r,
                    None => return Ok(()),
                };
                if r.lazy {
                    self.rec.probe("op_on_lazy_root");
                }
                let got = r.ps.lookup(&mut self.disks[r.disk], key);
                let want = r.model.get(key).cloned();
                self.log_res("lookup", got.as_deref().unwrap_or(b"\xff-none"));
                if got != want {
                    return fail(self.focus, self.step, 
                        Oracle::RootContent,
                        "root-content/lookup/op",
                        format!(
                            "lookup({}) = {:?}, model = {:?}",
                            hx(key),
                            got.map(|g| hx(&g)),
                            want.map(|g| hx(&g))
                        ),
                    );
                }
                Ok(())
            }
            Op::IterAll { root } => {
                if self.roots[*root].as_ref().map_or(false, |r| r.lazy) {
                    self.rec.probe("op_on_lazy_root");
                }
                self.check_root(*root, "op")
            }
            Op::Hash { root } => {
                let (ps, model, disk) = match self.roots[*root].as_ref() {
                    Some(r) => (r.ps.clone(), r.model.clone(), r.disk),
                    None => return Ok(()),
                };
                self.check_hash(&ps, &model, disk, "op")
            }
            Op::Cache { root } => {
                if let Some(r) = self.roots[*root].as_mut() {
                    r.ps.cache(&mut self.disks[r.disk]);
                    if r.lazy {
                        self.rec.probe("cache_of_lazy_root");
                    }
                    r.lazy = false;
                }
                Ok(())
            }
            Op::StoreUpdate { root, sync, fault, buf } => self.op_store(*root, *sync, *fault, buf.as_ref()),
            Op::LoadBack { root, dst } => {
                let (reference, disk, model, registered) = match self.roots[*root].as_ref() {
                    Some(RootObj {
                        stored: Some(r),
                        disk,
                        model,
                        registered,
                        ..
                    }) => (*r, *disk, model.clone(), *registered),
                    _ => return Ok(()),
                };
                match PersistentState::load_from_location(&mut self.disks[disk], reference) {
                    Ok(ps) => {
                        let family = self.family();
                        self.roots[*dst] = Some(RootObj {
                            ps,
                            model,
                            disk,
                            family,
                            stored: Some(reference),
                            registered,
                            lazy: true,
                        });
                        self.rec.probe("loadback");
                        if self.focus == Focus::Persist {
                            // contents and hash of the loaded (lazy) root
                            let (ps, model) = {
                                let r = self.roots[*dst].as_ref().unwrap();
                                (r.ps.clone(), r.model.clone())
                            };
                            self.check_hash(&ps, &model, disk, "loaded")?;
                        }
                        Ok(())
                    }
                    Err(e) => fail(self.focus, self.step, 
                        Oracle::Persist,
                        "persist/load-after-store",
                        format!("load_from_location of a stored root failed: {}", e),
                    ),
                }
            }
            Op::Serialize { root, dst, wplan, rplan } => self.op_serialize(*root, *dst, wplan, rplan),
            Op::Migrate { root, dst, fault } => self.op_migrate(*root, *dst, *fault),
            Op::CloneRoot { root, dst } => {
                if root == dst {
                    return Ok(());
                }
                if let Some(r) = self.roots[*root].as_ref() {
                    let c = RootObj {
                        ps:         r.ps.clone(),
                        model:      r.model.clone(),
                        disk:       r.disk,
                        family:     r.family,
                        stored:     r.stored,
                        registered: r.registered,
                        lazy:       r.lazy,
                    };
                    self.roots[*dst] = Some(c);
                }
                Ok(())
            }
            Op::DropRoot { root } => {
                self.roots[*root] = None;
                Ok(())
            }
            Op::Sync => {
                self.disks[0].sync();
                self.disks[1].sync();
                self.register_durable();
                Ok(())
            }
            Op::Crash { torn_permille } => self.op_crash(*torn_permille),
            Op::Thaw { root, dst, low } => {
                let (ps, model, disk, family) = match self.roots[*root].as_ref() {
                    Some(r) => (r.ps.clone(), r.model.clone(), r.disk, r.family),
                    None => return Ok(()),
                };
                if self.roots[*root].as_ref().unwrap().lazy {
                    self.rec.probe("thaw_of_lazy_root");
                }
                if let Some(_) = self.muts[*dst] {
                    self.check_origin(*dst)?;
                }
                let real = if *low {
                    MutReal::Low(Some(ps.clone().into_trie(&mut self.disks[disk])))
                } else {
                    MutReal::Api(vec![ps.thaw()], vec![false])
                };
                let mut g = GenModel::default();
                for (k, v) in model.iter() {
                    let uid = self.uid();
                    g.map.insert(k.clone(), (v.clone(), uid));
                }
                self.muts[*dst] = Some(MutObj {
                    real,
                    disk,
                    family,
                    gens: vec![g],
                    dead: false,
                    origin: Some((ps, model)),
                    untouched_outer: vec![false],
                });
                Ok(())
            }
            Op::Fresh { dst, low } => {
                if let Some(_) = self.muts[*dst] {
                    self.check_origin(*dst)?;
                }
                let real = if *low {
                    MutReal::Low(Some(MutableTrie::empty()))
                } else {
                    MutReal::Api(vec![MutableState::initial_state()], vec![false])
                };
                let family = self.family();
                self.muts[*dst] = Some(MutObj {
                    real,
                    disk: 0,
                    family,
                    gens: vec![GenModel::default()],
                    dead: false,
                    origin: None,
                    untouched_outer: vec![false],
                });
                Ok(())
            }
            Op::Freeze { m, dst, collect } => self.op_freeze(*m, *dst, *collect),
            Op::DropMut { m } => {
                if self.muts[*m].is_some() {
                    self.check_origin(*m)?;
                    self.muts[*m] = None;
                }
                Ok(())
            }
            Op::NewGen { m } => {
                let obj = match self.muts[*m].as_mut() {
                    Some(o) if !o.dead && o.gens.len() < MAX_GENS => o,
                    _ => return Ok(()),
                };
                let d = &mut self.disks[obj.disk];
                match &mut obj.real {
                    MutReal::Api(stack, touched) => {
                        let outer_untouched = !*touched.last().unwrap();
                        let newer = stack.last_mut().unwrap().make_fresh_generation(d);
                        // make_fresh_generation initialises the outer state's inner trie
                        *touched.last_mut().unwrap() = true;
                        stack.push(newer);
                        touched.push(false);
                        obj.untouched_outer.push(outer_untouched);
                    }
                    MutReal::Low(t) => {
                        t.as_mut().unwrap().verif_new_generation();
                        obj.untouched_outer.push(false);
                    }
                }
                let top = obj.gens.last().unwrap();
                let g = GenModel {
                    map:     top.map.clone(),
                    locks:   Vec::new(),
                    handles: Vec::new(),
                    iters:   Vec::new(),
                    dirty:   top.dirty,
                };
                obj.gens.push(g);
                self.rec.probe("new_generation");
                Ok(())
            }
            Op::Rollback { m, quiet } => {
                let obj = match self.muts[*m].as_mut() {
                    Some(o) if o.gens.len() > 1 => o,
                    _ => return Ok(()),
                };
                match &mut obj.real {
                    MutReal::Api(stack, touched) => {
                        stack.pop();
                        touched.pop();
                    }
                    MutReal::Low(t) => {
                        let keep = obj.gens.len() - 2;
                        t.as_mut().unwrap().verif_normalize(keep as u32);
                    }
                }
                obj.gens.pop();
                obj.dead = false;
                self.rec.probe("rollback");
                let r = if *quiet && matches!(self.muts[*m].as_ref().map(|o| &o.real), Some(MutReal::Api(..))) {
                    self.rec.probe("rollback_unobserved");
                    Ok(())
                } else {
                    self.check_mut(*m, "older-generation", Oracle::Leak)
                };
                if let Some(o) = self.muts[*m].as_mut() {
                    o.untouched_outer.pop();
                }
                r
            }
            Op::Insert { m, key, val } => {
                let obj = match self.muts[*m].as_mut() {
                    Some(o) if !o.dead => o,
                    _ => return Ok(()),
                };
                let d = &mut self.disks[obj.disk];
                let res = with_trie(&mut obj.real, d, |t, d| t.insert(d, key, val.clone()));
                let g = obj.gens.last_mut().unwrap();
                let locked = locked_for_key(&g.locks, key);
                match res {
                    Err(_) => {
                        self.rec.log_str("locked");
                        if !locked {
                            return fail(self.focus, self.step, 
                                Oracle::Lock,
                                "lock/insert-refused-unlocked",
                                format!("insert({}) refused but no live iterator covers it (locks {:?})", hx(key), g.locks.iter().map(|l| hx(l)).collect::<Vec<_>>()),
                            );
                        }
                        self.rec.probe("refused_by_lock");
                        if self.focus == Focus::Locks {
                            return self.check_mut(*m, "after-refused-insert", Oracle::LockNoChange);
                        }
                        Ok(())
                    }
                    Ok((id, existed)) => {
                        if locked {
                            return fail(self.focus, self.step, 
                                Oracle::Lock,
                                "lock/insert-accepted-locked",
                                format!("insert({}) accepted although an iterator on a prefix of it is alive (locks {:?})", hx(key), g.locks.iter().map(|l| hx(l)).collect::<Vec<_>>()),
                            );
                        }
                        let was = g.map.contains_key(key);
                        let uid = if let Some((_, uid)) = g.map.get(key) {
                            *uid
                        } else {
                            self.next_uid += 1;
                            self.next_uid
                        };
                        g.map.insert(key.clone(), (val.clone(), uid));
                        g.dirty = true;
                        if g.handles.len() < MAX_HANDLES {
                            g.handles.push(Handle {
                                id,
                                key: key.clone(),
                                uid,
                            });
                        }
                        self.rec.log_u64(existed as u64);
                        if existed != was {
                            return fail(self.focus, self.step, 
                                Oracle::Map,
                                "map/insert-existed",
                                format!("insert({}) reported existed={}, model says {}", hx(key), existed, was),
                            );
                        }
                        Ok(())
                    }
                }
            }
            Op::GetEntry { m, key } => {
                let obj = match self.muts[*m].as_mut() {
                    Some(o) if !o.dead => o,
                    _ => return Ok(()),
                };
                let d = &mut self.disks[obj.disk];
                let res = with_trie(&mut obj.real, d, |t, d| t.get_entry(d, key));
                let g = obj.gens.last_mut().unwrap();
                let want = g.map.get(key).map(|x| x.1);
                self.rec.log_u64(res.is_some() as u64);
                match (res, want) {
                    (Some(id), Some(uid)) => {
                        if g.handles.len() < MAX_HANDLES {
                            g.handles.push(Handle {
                                id,
                                key: key.clone(),
                                uid,
                            });
                        }
                        Ok(())
                    }
                    (None, None) => Ok(()),
                    (a, b) => fail(self.focus, self.step, 
                        Oracle::Map,
                        "map/get_entry",
                        format!("get_entry({}) found={}, model has={}", hx(key), a.is_some(), b.is_some()),
                    ),
                }
            }
            Op::WithEntry { m, h } => {
                let obj = match self.muts[*m].as_mut() {
                    Some(o) if !o.dead => o,
                    _ => return Ok(()),
                };
                let g = obj.gens.last().unwrap();
                if g.handles.is_empty() {
                    return Ok(());
                }
                let hd = &g.handles[*h % g.handles.len()];
                let (id, key, uid) = (hd.id, hd.key.clone(), hd.uid);
                let want = match g.map.get(&key) {
                    Some((v, u)) if *u == uid => Some(v.clone()),
                    _ => None,
                };
                let d = &mut self.disks[obj.disk];
                let got = with_trie(&mut obj.real, d, |t, d| t.with_entry(id, d, |x| x.to_vec()));
                self.log_res("with_entry", got.as_deref().unwrap_or(b"\xff-none"));
                if want.is_none() {
                    self.rec.probe("stale_handle_used");
                }
                if got != want {
                    return fail(self.focus, self.step, 
                        Oracle::Handle,
                        if want.is_none() { "handle/stale-readable" } else { "handle/read" },
                        format!(
                            "with_entry(handle of {}) = {:?}, model = {:?}",
                            hx(&key),
                            got.map(|g| hx(&g)),
                            want.map(|g| hx(&g))
                        ),
                    );
                }
                Ok(())
            }
            Op::GetMut { m, h, w, budget } => {
                let obj = match self.muts[*m].as_mut() {
                    Some(o) if !o.dead => o,
                    _ => return Ok(()),
                };
                let g = obj.gens.last_mut().unwrap();
                if g.handles.is_empty() {
                    return Ok(());
                }
                let hd = &g.handles[*h % g.handles.len()];
                let (id, key, uid) = (hd.id, hd.key.clone(), hd.uid);
                let alive = matches!(g.map.get(&key), Some((_, u)) if *u == uid);
                let d = &mut self.disks[obj.disk];
                // 0 = out of budget, 1 = None, 2 = Some
                let mut newval: Option<Vec<u8>> = None;
                let code = with_trie(&mut obj.real, d, |t, d| {
                    match t.verif_get_mut(id, d, &mut VerifBudget(*budget)) {
                        Err(_) => 0,
                        Ok(None) => 1,
                        Ok(Some(v)) => {
                            match w {
                                MutWrite::Touch => {}
                                MutWrite::Resize { len } => v.resize(*len as usize, 0),
                                MutWrite::Write { off, data } => {
                                    let off = (*off as usize).min(v.len());
                                    let end = off + data.len();
                                    if v.len() < end {
                                        v.resize(end, 0);
                                    }
                                    v[off..end].copy_from_slice(data);
                                }
                            }
                            newval = Some(v.clone());
                            2
                        }
                    }
                });
                self.rec.log_u64(code);
                match code {
                    0 => {
                        if *budget >= LIMITED_BUDGET {
                            return fail(self.focus, self.step, Oracle::Map, "map/get_mut-budget", "get_mut ran out of an unbounded budget");
                        }
                        self.rec.fault("budget_exhausted");
                        // The allocation is asked for before anything is copied: a refused get_mut leaves the
                        // generation as it was (unmodified, still usable). Other operations that run out of
                        // budget half-way (delete_prefix, next) do end the generation, as out-of-energy does.
                        self.rec.probe("get_mut_refused_generation_kept");
                        Ok(())
                    }
                    1 => {
                        if alive {
                            return fail(self.focus, self.step, 
                                Oracle::Handle,
                                "handle/get_mut-none",
                                format!("get_mut(handle of {}) = None but the entry is alive in the model", hx(&key)),
                            );
                        }
                        self.rec.probe("stale_handle_used");
                        Ok(())
                    }
                    _ => {
                        if !alive {
                            return fail(self.focus, self.step, 
                                Oracle::Handle,
                                "handle/stale-writable",
                                format!("get_mut(handle of {}) gave a value although the entry was deleted", hx(&key)),
                            );
                        }
                        // model: apply the same write
                        let g = obj.gens.last_mut().unwrap();
                        let cur = g.map.get_mut(&key).unwrap();
                        let v = &mut cur.0;
                        match w {
                            MutWrite::Touch => {}
                            MutWrite::Resize { len } => v.resize(*len as usize, 0),
                            MutWrite::Write { off, data } => {
                                let off = (*off as usize).min(v.len());
                                let end = off + data.len();
                                if v.len() < end {
                                    v.resize(end, 0);
                                }
                                v[off..end].copy_from_slice(data);
                            }
                        }
                        g.dirty = true;
                        if Some(&*v) != newval.as_ref() {
                            let vv = v.clone();
                            return fail(self.focus, self.step, 
                                Oracle::Handle,
                                "handle/get_mut-value",
                                format!(
                                    "after writing through get_mut(handle of {}) value is {:?}, model {}",
                                    hx(&key),
                                    newval.map(|x| hx(&x)),
                                    hx(&vv)
                                ),
                            );
                        }
                        Ok(())
                    }
                }
            }
            Op::Set { m, h, val } => {
                let obj = match self.muts[*m].as_mut() {
                    Some(o) if !o.dead => o,
                    _ => return Ok(()),
                };
                let g = obj.gens.last_mut().unwrap();
                if g.handles.is_empty() {
                    return Ok(());
                }
                let hd = &g.handles[*h % g.handles.len()];
                let (id, key, uid) = (hd.id, hd.key.clone(), hd.uid);
                let alive = matches!(g.map.get(&key), Some((_, u)) if *u == uid);
                let d = &mut self.disks[obj.disk];
                let ok = with_trie(&mut obj.real, d, |t, _| t.set(id, val.clone()).is_some());
                self.rec.log_u64(ok as u64);
                if ok != alive {
                    return fail(self.focus, self.step, 
                        Oracle::Handle,
                        if ok { "handle/stale-writable" } else { "handle/set-none" },
                        format!("set(handle of {}) succeeded={}, entry alive in model={}", hx(&key), ok, alive),
                    );
                }
                if alive {
                    let g = obj.gens.last_mut().unwrap();
                    g.map.get_mut(&key).unwrap().0 = val.clone();
                    g.dirty = true;
                } else {
                    self.rec.probe("stale_handle_used");
                }
                Ok(())
            }
            Op::Delete { m, key } => {
                let obj = match self.muts[*m].as_mut() {
                    Some(o) if !o.dead => o,
                    _ => return Ok(()),
                };
                let d = &mut self.disks[obj.disk];
                let res = with_trie(&mut obj.real, d, |t, d| t.delete(d, key));
                let g = obj.gens.last_mut().unwrap();
                let locked = locked_for_key(&g.locks, key);
                // Note: the real code answers Ok(false) for an empty tree before looking at locks.
                match res {
                    Err(_) => {
                        self.rec.log_str("locked");
                        if !locked {
                            return fail(self.focus, self.step, 
                                Oracle::Lock,
                                "lock/delete-refused-unlocked",
                                format!("delete({}) refused but no live iterator covers it", hx(key)),
                            );
                        }
                        self.rec.probe("refused_by_lock");
                        if self.focus == Focus::Locks {
                            return self.check_mut(*m, "after-refused-delete", Oracle::LockNoChange);
                        }
                        Ok(())
                    }
                    Ok(existed) => {
                        if locked {
                            return fail(self.focus, self.step, 
                                Oracle::Lock,
                                "lock/delete-accepted-locked",
                                format!("delete({}) accepted although an iterator on a prefix of it is alive (locks {:?})", hx(key), g.locks.iter().map(|l| hx(l)).collect::<Vec<_>>()),
                            );
                        }
                        let was = g.map.remove(key).is_some();
                        // a delete that removed nothing leaves the state unmodified
                        g.dirty |= was;
                        self.rec.log_u64(existed as u64);
                        if existed != was {
                            return fail(self.focus, self.step, 
                                Oracle::Map,
                                "map/delete",
                                format!("delete({}) returned {}, model says {}", hx(key), existed, was),
                            );
                        }
                        Ok(())
                    }
                }
            }
            Op::DeletePrefix { m, key, budget } => {
                let obj = match self.muts[*m].as_mut() {
                    Some(o) if !o.dead => o,
                    _ => return Ok(()),
                };
                let d = &mut self.disks[obj.disk];
                let res = with_trie(&mut obj.real, d, |t, d| t.verif_delete_prefix(d, key, &mut VerifBudget(*budget)));
                let g = obj.gens.last_mut().unwrap();
                let locked = locked_for_prefix(&g.locks, key);
                match res {
                    Err(_) => {
                        self.rec.log_str("oob");
                        if *budget >= LIMITED_BUDGET {
                            return fail(self.focus, self.step, Oracle::Map, "map/delete_prefix-budget", "delete_prefix ran out of an unbounded budget");
                        }
                        if locked {
                            return fail(self.focus, self.step, 
                                Oracle::Lock,
                                "lock/delete_prefix-charged-locked",
                                format!("delete_prefix({}) on a locked region consumed budget instead of being refused", hx(key)),
                            );
                        }
                        self.rec.fault("budget_exhausted");
                        obj.dead = true;
                        Ok(())
                    }
                    Ok(Err(_)) => {
                        self.rec.log_str("locked");
                        if !locked {
                            return fail(self.focus, self.step, 
                                Oracle::Lock,
                                "lock/delete_prefix-refused-unlocked",
                                format!("delete_prefix({}) refused but no live iterator is at, under or above it (locks {:?})", hx(key), g.locks.iter().map(|l| hx(l)).collect::<Vec<_>>()),
                            );
                        }
                        self.rec.probe("refused_by_lock");
                        if self.focus == Focus::Locks {
                            return self.check_mut(*m, "after-refused-delete_prefix", Oracle::LockNoChange);
                        }
                        Ok(())
                    }
                    Ok(Ok(any)) => {
                        let ks = keys_with_prefix(&g.map, key);
                        // Note: on an empty tree the real code answers Ok(false) before looking at locks.
                        if locked && !g.map.is_empty() {
                            return fail(self.focus, self.step, 
                                Oracle::Lock,
                                "lock/delete_prefix-accepted-locked",
                                format!("delete_prefix({}) accepted although a live iterator is at, under or above it (locks {:?})", hx(key), g.locks.iter().map(|l| hx(l)).collect::<Vec<_>>()),
                            );
                        }
                        for k in ks.iter() {
                            g.map.remove(k);
                        }
                        g.dirty |= !ks.is_empty();
                        self.rec.log_u64(any as u64);
                        if any != !ks.is_empty() {
                            return fail(self.focus, self.step, 
                                Oracle::Map,
                                "map/delete_prefix",
                                format!("delete_prefix({}) returned {}, model removed {} keys", hx(key), any, ks.len()),
                            );
                        }
                        Ok(())
                    }
                }
            }
            Op::Iter { m, prefix } => {
                let obj = match self.muts[*m].as_mut() {
                    Some(o) if !o.dead => o,
                    _ => return Ok(()),
                };
                if obj.gens.last().unwrap().iters.len() >= MAX_ITERS {
                    return Ok(());
                }
                let d = &mut self.disks[obj.disk];
                let res = with_trie(&mut obj.real, d, |t, d| t.verif_iter(d, prefix));
                let g = obj.gens.last_mut().unwrap();
                let keys = keys_with_prefix(&g.map, prefix);
                match res {
                    Err(_) => fail(self.focus, self.step, Oracle::Iter, "iter/too-many", "iter failed with TooManyIterators"),
                    Ok(None) => {
                        self.rec.log_u64(0);
                        if !keys.is_empty() {
                            return fail(self.focus, self.step, 
                                Oracle::Iter,
                                "iter/none-but-keys",
                                format!("iter({}) = None but {} keys have that prefix", hx(prefix), keys.len()),
                            );
                        }
                        Ok(())
                    }
                    Ok(Some(it)) => {
                        self.rec.log_u64(1);
                        if keys.is_empty() {
                            return fail(self.focus, self.step, 
                                Oracle::Iter,
                                "iter/some-but-no-keys",
                                format!("iter({}) gave an iterator but no key has that prefix", hx(prefix)),
                            );
                        }
                        if it.get_root() != &prefix[..] {
                            return fail(self.focus, self.step, Oracle::Iter, "iter/root", "iterator root differs from the requested prefix");
                        }
                        g.locks.push(prefix.clone());
                        g.iters.push(IterModel {
                            real: it,
                            prefix: prefix.clone(),
                            keys,
                            pos: 0,
                            deleted: false,
                        });
                        if g.iters.iter().filter(|i| !i.deleted).count() > 1 {
                            self.rec.probe("concurrent_iterators");
                        }
                        Ok(())
                    }
                }
            }
            Op::Next { m, it, budget } => {
                let obj = match self.muts[*m].as_mut() {
                    Some(o) if !o.dead => o,
                    _ => return Ok(()),
                };
                let g = obj.gens.last_mut().unwrap();
                if g.iters.is_empty() {
                    return Ok(());
                }
                let n = g.iters.len();
                let im = &mut g.iters[*it % n];
                if im.deleted {
                    return Ok(());
                }
                let d = &mut self.disks[obj.disk];
                // (code, key, value)
                let res = with_trie(&mut obj.real, d, |t, d| {
                    match t.verif_next(d, &mut im.real, &mut VerifBudget(*budget)) {
                        Err(_) => Err(()),
                        Ok(None) => Ok(None),
                        Ok(Some(e)) => {
                            let k = im.real.get_key().to_vec();
                            let v = t.with_entry(e, d, |x| x.to_vec());
                            Ok(Some((k, v)))
                        }
                    }
                });
                match res {
                    Err(()) => {
                        self.rec.log_str("oob");
                        if *budget >= LIMITED_BUDGET {
                            return fail(self.focus, self.step, Oracle::Iter, "iter/next-budget", "next ran out of an unbounded budget");
                        }
                        self.rec.fault("budget_exhausted");
                        obj.dead = true;
                        Ok(())
                    }
                    Ok(None) => {
                        self.rec.log_u64(0);
                        if im.pos != im.keys.len() {
                            let (pos, len, p) = (im.pos, im.keys.len(), im.prefix.clone());
                            return fail(self.focus, self.step, 
                                Oracle::Iter,
                                "iter/ended-early",
                                format!("iterator on {} ended after {} of {} entries", hx(&p), pos, len),
                            );
                        }
                        Ok(())
                    }
                    Ok(Some((k, v))) => {
                        self.rec.log_bytes(&k);
                        if im.pos >= im.keys.len() {
                            let p = im.prefix.clone();
                            return fail(self.focus, self.step, 
                                Oracle::Iter,
                                "iter/extra",
                                format!("iterator on {} yielded {} after its last entry", hx(&p), hx(&k)),
                            );
                        }
                        let wantk = im.keys[im.pos].clone();
                        im.pos += 1;
                        let wantv = g.map.get(&wantk).map(|x| x.0.clone());
                        if k != wantk || v != wantv {
                            return fail(self.focus, self.step, 
                                Oracle::Iter,
                                "iter/yield",
                                format!(
                                    "iterator yielded ({}, {:?}), model expects ({}, {:?})",
                                    hx(&k),
                                    v.map(|x| hx(&x)),
                                    hx(&wantk),
                                    wantv.map(|x| hx(&x))
                                ),
                            );
                        }
                        Ok(())
                    }
                }
            }
            Op::DeleteIter { m, it } => {
                let obj = match self.muts[*m].as_mut() {
                    Some(o) if !o.dead => o,
                    _ => return Ok(()),
                };
                let g = obj.gens.last_mut().unwrap();
                if g.iters.is_empty() {
                    return Ok(());
                }
                let n = g.iters.len();
                let im = &mut g.iters[*it % n];
                if im.deleted {
                    return Ok(());
                }
                let d = &mut self.disks[obj.disk];
                let ok = with_trie(&mut obj.real, d, |t, _| t.verif_delete_iter(&im.real));
                im.deleted = true;
                let p = im.prefix.clone();
                if let Some(i) = g.locks.iter().position(|l| *l == p) {
                    g.locks.remove(i);
                }
                self.rec.log_u64(ok as u64);
                if !ok {
                    return fail(self.focus, self.step, 
                        Oracle::Lock,
                        "lock/delete_iter-false",
                        format!("delete_iter of a live iterator on {} returned false", hx(&p)),
                    );
                }
                Ok(())
            }
            Op::CheckMut { m } => self.check_mut(*m, "newest-generation", Oracle::FullCheck),
            Op::ShippedPair { root, storer } => self.op_shipped(*root, *storer),
        }
    }

    /// The library's own store/load pairs: `Vec<u8>` + `Loader` and
    /// `Storer<Cursor<Vec<u8>>>` + `Loader`.
    fn op_shipped(&mut self, root: usize, storer: bool) -> Step {
        use concordium_smart_contract_engine::v1::trie::{Loader, Storer};
        let model = match self.roots[root].as_ref() {
            Some(r) => r.model.clone(),
            None => return Ok(()),
        };
        let mut ps = PersistentState::from_iterator(model.iter().map(|(k, v)| (&k[..], v.clone())));
        let (name, bytes, reference) = if storer {
            let mut st = Storer {
                inner: std::io::Cursor::new(Vec::<u8>::new()),
            };
            let r = ps.store_update(&mut st);
            ("Storer+Loader", st.inner.into_inner(), r)
        } else {
            let mut v: Vec<u8> = Vec::new();
            let r = ps.store_update(&mut v);
            ("Vec+Loader", v, r)
        };
        let reference = match reference {
            Ok(r) => r,
            Err(e) => {
                return fail(self.focus, self.step, Oracle::Persist, format!("persist/shipped-pair/{}/store", name), format!("store_update failed: {}", e))
            }
        };
        let mut loader = Loader::new(bytes);
        let loaded = match PersistentState::load_from_location(&mut loader, reference) {
            Ok(l) => l,
            Err(e) => {
                return fail(
                    self.focus,
                    self.step,
                    Oracle::Persist,
                    format!("persist/shipped-pair/{}", name),
                    format!("a state stored with the library's {} cannot be loaded with the library's Loader: {}", name, e),
                )
            }
        };
        // contents through the shipped loader; a failing load_raw panics inside the trie
        let r = std::panic::catch_unwind(std::panic::AssertUnwindSafe(|| {
            let all: Vec<(Vec<u8>, Vec<u8>)> = loaded.clone().into_iterator(&mut loader).collect();
            let h = loaded.hash(&mut loader);
            let h: &[u8] = h.as_ref();
            (all, h.to_vec())
        }));
        let want: Vec<(Vec<u8>, Vec<u8>)> = model.iter().map(|(k, v)| (k.clone(), v.clone())).collect();
        match r {
            Ok((all, h)) => {
                if all != want || h != model::reference_hash(&model) {
                    return fail(
                        self.focus,
                        self.step,
                        Oracle::Persist,
                        format!("persist/shipped-pair/{}", name),
                        format!("state stored and loaded through {} differs from what was stored ({} vs {} entries)", name, all.len(), want.len()),
                    );
                }
            }
            Err(_) => {
                return fail(
                    self.focus,
                    self.step,
                    Oracle::Persist,
                    format!("persist/shipped-pair/{}", name),
                    format!("reading a state stored through {} back with the library's Loader panics", name),
                )
            }
        }
        self.rec.probe("shipped_pair");
        Ok(())
    }

    fn op_store(
        &mut self,
        root: usize,
        sync: bool,
        fault: Option<crate::disk::StoreFault>,
        buf: Option<&simcore::faultio::WritePlan>,
    ) -> Step {
        let disk = match self.roots[root].as_ref() {
            Some(r) => r.disk,
            None => return Ok(()),
        };
        self.disks[disk].arm(fault);
        let mut writer_fault = false;
        let res: Result<Reference, String> = {
            let r = self.roots[root].as_mut().unwrap();
            let d = &mut self.disks[disk];
            match buf {
                None => r.ps.store_update(d).map_err(|e| e.to_string()),
                Some(wp) => {
                    let mut w = SimWriter::new(wp);
                    let r1 = r.ps.store_update_buf(d, &mut w);
                    writer_fault = w.stats.full_fired || w.stats.err_fired;
                    if w.stats.short > 0 {
                        self.rec.fault("short_write");
                    }
                    if w.stats.interrupted > 0 {
                        self.rec.fault("write_eintr");
                    }
                    match r1 {
                        Ok(()) => {
                            if writer_fault {
                                Err("LOST".into())
                            } else {
                                use concordium_smart_contract_engine::v1::trie::BackingStoreStore;
                                d.store_raw(&w.out).map_err(|e| e.to_string())
                            }
                        }
                        Err(e) => Err(e.to_string()),
                    }
                }
            }
        };
        let disk_fault = self.disks[disk].disarm();
        if disk_fault {
            self.rec.fault(match fault {
                Some(crate::disk::StoreFault::ErrBefore { .. }) => "store_err_before",
                _ => "store_err_after_lost_ack",
            });
        }
        if writer_fault {
            self.rec.fault("root_record_writer_fault");
        }
        match res {
            Ok(reference) => {
                if disk_fault {
                    return fail(self.focus, self.step, 
                        Oracle::Fault,
                        "fault/store-ok-after-error",
                        "store_update returned Ok although a store_raw call inside it failed",
                    );
                }
                self.rec.log_u64(u64::from(reference));
                let r = self.roots[root].as_mut().unwrap();
                if r.stored != Some(reference) {
                    r.registered = false;
                }
                r.stored = Some(reference);
            }
            Err(e) if e == "LOST" => {
                return fail(self.focus, self.step, 
                    Oracle::Fault,
                    "fault/store-ok-after-writer-error",
                    "store_update_buf returned Ok although the writer for the root record refused bytes",
                );
            }
            Err(e) => {
                if !disk_fault && !writer_fault {
                    return fail(self.focus, self.step, 
                        Oracle::Persist,
                        "persist/store-failed",
                        format!("store_update failed without an injected fault: {}", e),
                    );
                }
                self.rec.log_str("store-failed");
                // after the failed store the state must still read as the model …
                self.check_root(root, "after-failed-store")?;
                // … and a retry without faults must succeed.
                let r = self.roots[root].as_mut().unwrap();
                match r.ps.store_update(&mut self.disks[disk]) {
                    Ok(reference) => {
                        r.stored = Some(reference);
                        r.registered = false;
                    }
                    Err(e) => {
                        return fail(self.focus, self.step, 
                            Oracle::Fault,
                            "fault/retry-failed",
                            format!("store_update retried without faults after an injected failure still fails: {}", e),
                        )
                    }
                }
            }
        }
        if sync {
            self.disks[disk].sync();
            self.register_durable();
        }
        Ok(())
    }

    fn op_serialize(
        &mut self,
        root: usize,
        dst: usize,
        wplan: &simcore::faultio::WritePlan,
        rplan: &simcore::faultio::ReadPlan,
    ) -> Step {
        let (ps, model, disk) = match self.roots[root].as_ref() {
            Some(r) => (r.ps.clone(), r.model.clone(), r.disk),
            None => return Ok(()),
        };
        let mut w = SimWriter::new(wplan);
        let res = ps.serialize(&mut self.disks[disk], &mut w);
        if w.stats.short > 0 {
            self.rec.fault("short_write");
        }
        if w.stats.interrupted > 0 {
            self.rec.fault("write_eintr");
        }
        let wfault = w.stats.full_fired || w.stats.err_fired;
        if wfault {
            self.rec.fault("serialize_writer_fault");
            if res.is_ok() {
                return fail(self.focus, self.step, 
                    Oracle::Fault,
                    "fault/serialize-ok-after-writer-error",
                    "serialize returned Ok although the writer refused bytes",
                );
            }
            return Ok(());
        }
        if let Err(e) = res {
            return fail(self.focus, self.step, Oracle::RoundTrip, "roundtrip/serialize-failed", format!("serialize failed without a fault: {}", e));
        }
        let bytes = w.out;
        self.rec.log_u64(bytes.len() as u64);
        self.rec.tick(bytes.len() as u64);
        let mut rd = SimReader::new(&bytes, rplan);
        let res = PersistentState::deserialize(&mut rd);
        if rd.stats.short > 0 {
            self.rec.fault("short_read");
        }
        if rd.stats.interrupted > 0 {
            self.rec.fault("read_eintr");
        }
        let rfault = rd.stats.eof_fired || rd.stats.err_fired;
        if rfault {
            self.rec.fault("deserialize_reader_fault");
            if res.is_ok() {
                return fail(self.focus, self.step, 
                    Oracle::Fault,
                    "fault/deserialize-ok-after-reader-error",
                    "deserialize returned Ok although the stream ended or failed while it was reading",
                );
            }
            return Ok(());
        }
        let consumed = rd.consumed();
        let new = match res {
            Ok(n) => n,
            Err(e) => {
                return fail(self.focus, self.step, 
                    Oracle::RoundTrip,
                    "roundtrip/deserialize-failed",
                    format!("deserialize(serialize(s)) failed on a clean stream (chunks {:?}): {}", rplan.chunks, e),
                )
            }
        };
        if consumed != bytes.len() {
            return fail(self.focus, self.step, 
                Oracle::RoundTrip,
                "roundtrip/consumed",
                format!("deserialize consumed {} of {} bytes", consumed, bytes.len()),
            );
        }
        // byte-identical re-serialisation
        let mut again = Vec::new();
        if let Err(e) = new.serialize(&mut self.disks[disk], &mut again) {
            return fail(self.focus, self.step, Oracle::RoundTrip, "roundtrip/reserialize-failed", format!("{}", e));
        }
        if again != bytes {
            return fail(self.focus, self.step, 
                Oracle::RoundTrip,
                "roundtrip/reserialize-differs",
                format!("re-serialising the deserialised state gives {} bytes that differ from the original {}", again.len(), bytes.len()),
            );
        }
        let family = self.family();
        self.roots[dst] = Some(RootObj {
            ps: new,
            model,
            disk,
            family,
            stored: None,
            registered: false,
            lazy: false,
        });
        if self.focus == Focus::Persist {
            self.check_root(dst, "deserialized")?;
        }
        Ok(())
    }

    fn op_migrate(&mut self, root: usize, dst: usize, fault: Option<crate::disk::StoreFault>) -> Step {
        let (model, src, family) = match self.roots[root].as_ref() {
            Some(r) => (r.model.clone(), r.disk, r.family),
            None => return Ok(()),
        };
        let tgt = 1 - src;
        self.disks[tgt].arm(fault);
        let res = {
            let (a, b) = self.disks.split_at_mut(1);
            let (s, t) = if src == 0 { (&mut a[0], &mut b[0]) } else { (&mut b[0], &mut a[0]) };
            let r = self.roots[root].as_mut().unwrap();
            r.ps.migrate(t, s)
        };
        let fired = self.disks[tgt].disarm();
        if fired {
            self.rec.fault("migrate_store_err");
        }
        let _ = family;
        // The source (and every tree sharing nodes with it) must stay intact and
        // readable with its own store, whether or not the migration succeeded.
        if self.focus == Focus::Persist {
            match self.check_root(root, "migrate-source") {
                Err(Stop::Violation(mut v)) => {
                    v.oracle = "roundtrip".into();
                    v.signature = format!("roundtrip/migrate-source-damaged/{}", v.signature);
                    return Err(Stop::Violation(v));
                }
                other => other?,
            }
        }
        match res {
            Ok(new) => {
                if fired {
                    return fail(self.focus, self.step, 
                        Oracle::Fault,
                        "fault/migrate-ok-after-error",
                        "migrate returned Ok although a store_raw call inside it failed",
                    );
                }
                let family = self.family();
                self.roots[dst] = Some(RootObj {
                    ps: new,
                    model,
                    disk: tgt,
                    family,
                    stored: None,
                    registered: false,
                    lazy: true,
                });
                self.rec.probe("migrated");
                if self.focus == Focus::Persist {
                    self.check_root(dst, "migrated")?;
                }
                Ok(())
            }
            Err(e) => {
                if !fired {
                    return fail(self.focus, self.step, 
                        Oracle::RoundTrip,
                        "roundtrip/migrate-failed",
                        format!("migrate failed without an injected fault: {}", e),
                    );
                }
                Ok(())
            }
        }
    }

    fn op_crash(&mut self, torn: Option<u32>) -> Step {
        for m in self.muts.iter_mut() {
            *m = None;
        }
        for r in self.roots.iter_mut() {
            *r = None;
        }
        let lost = self.disks[0].crash(torn) + self.disks[1].crash(torn);
        self.rec.fault("crash");
        if lost > 0 {
            self.rec.fault("crash_lost_unsynced_bytes");
        }
        if torn.is_some() {
            self.rec.fault("crash_torn_tail");
        }
        // durability: every acknowledged root loads and equals its model
        let entries: Vec<(Reference, usize, Rc<Map>, usize)> =
            self.registry.iter().map(|d| (d.reference, d.disk, d.model.clone(), d.slot)).collect();
        for (reference, disk, model, slot) in entries {
            match PersistentState::load_from_location(&mut self.disks[disk], reference) {
                Ok(ps) => {
                    match self.check_ps(&ps, &model, disk, "after-restart") {
                        Err(Stop::Violation(mut v)) if Oracle::Persist.gates(self.focus) && v.oracle == "root-content" => {
                            v.oracle = "persist".into();
                            v.signature = format!("persist/after-restart/{}", v.signature);
                            return Err(Stop::Violation(v));
                        }
                        other => other?,
                    }
                    let family = self.family();
                    self.roots[slot] = Some(RootObj {
                        ps,
                        model,
                        disk,
                        family,
                        stored: Some(reference),
                        registered: true,
                        lazy: true,
                    });
                    self.rec.probe("restart_reloaded");
                }
                Err(e) => {
                    return fail(self.focus, self.step, 
                        Oracle::Persist,
                        "persist/durable-root-unloadable",
                        format!("a root acknowledged as durable cannot be loaded after restart: {}", e),
                    )
                }
            }
        }
        Ok(())
    }

    fn op_freeze(&mut self, m: usize, dst: usize, collect: bool) -> Step {
        let obj = match self.muts[m].as_mut() {
            Some(o) if !o.dead => o,
            _ => return Ok(()),
        };
        let disk = obj.disk;
        let family = obj.family;
        let d = &mut self.disks[disk];
        let mut sc = SizeCollector::default();
        let ps = match &mut obj.real {
            MutReal::Api(stack, touched) => {
                let top = stack.last_mut().unwrap();
                let ps = if collect { top.freeze(d, &mut sc) } else { top.freeze(d, &mut EmptyCollector) };
                let top = stack.pop().unwrap();
                stack.clear();
                stack.push(top);
                touched.clear();
                touched.push(false);
                ps
            }
            MutReal::Low(t) => {
                let trie = t.take().unwrap();
                let r = if collect { trie.freeze(d, &mut sc) } else { trie.freeze(d, &mut EmptyCollector) };
                match r {
                    Some(cr) => PersistentState::from(cr),
                    None => PersistentState::Empty,
                }
            }
        };
        let top = obj.gens.last().unwrap();
        let model = Rc::new(plain(&top.map));
        let dirty = top.dirty;
        let origin = obj.origin.clone();
        let is_low = matches!(obj.real, MutReal::Low(_));
        // the old origin must not have changed
        if let Some((ops, omodel)) = &origin {
            match self.check_ps(ops, omodel, disk, "origin-of-mutable") {
                Err(Stop::Violation(mut v)) if v.oracle == "root-content" && Oracle::Leak.gates(self.focus) => {
                    v.oracle = "leak".into();
                    v.signature = "leak/persistent-root".into();
                    return Err(Stop::Violation(v));
                }
                other => other?,
            }
        }
        if collect {
            let n = sc.collect();
            self.rec.log_u64(n);
            if !dirty && n != 0 {
                return fail(self.focus, self.step, 
                    Oracle::Collector,
                    "collector/unmodified-nonzero",
                    format!("refreezing a state that was only read reports {} new bytes", n),
                );
            }
            if !dirty {
                self.rec.probe("refreeze_unmodified");
            }
        }
        if is_low {
            self.muts[m] = None;
        } else {
            let obj = self.muts[m].as_mut().unwrap();
            let mut g = GenModel::default();
            for (k, v) in model.iter() {
                self.next_uid += 1;
                g.map.insert(k.clone(), (v.clone(), self.next_uid));
            }
            obj.gens = vec![g];
            obj.origin = Some((ps.clone(), model.clone()));
            obj.untouched_outer = vec![false];
        }
        self.roots[dst] = Some(RootObj {
            ps,
            model,
            disk,
            family,
            stored: None,
            registered: false,
            lazy: false,
        });
        self.rec.probe("freeze");
        if self.focus == Focus::Persist {
            self.check_root(dst, "frozen")?;
        }
        Ok(())
    }

    /// Final cross-checks: every generation of every mutable object (newest
    /// first, rolling back), every origin, every root.
    pub fn finish(&mut self) -> Step {
        for m in 0..NMUTS {
            if self.muts[m].is_none() {
                continue;
            }
            self.check_mut(m, "newest-generation", Oracle::FullCheck)?;
            while self.muts[m].as_ref().map_or(0, |o| o.gens.len()) > 1 {
                self.apply(&Op::Rollback { m, quiet: false })?;
            }
            self.check_origin(m)?;
        }
        for r in 0..NROOTS {
            self.check_root(r, "final")?;
        }
        Ok(())
    }

    pub fn periodic(&mut self, op: &Op) -> Step {
        match op {
            Op::Insert { m, .. }
            | Op::Delete { m, .. }
            | Op::DeletePrefix { m, .. }
            | Op::Set { m, .. }
            | Op::GetMut { m, .. }
            | Op::NewGen { m }
            | Op::Next { m, .. } => self.check_mut(*m, "newest-generation", Oracle::FullCheck),
            Op::StoreUpdate { root, .. } | Op::Cache { root } | Op::Lookup { root, .. } => self.check_root(*root, "periodic"),
            _ => Ok(()),
        }
    }

    pub fn set_step(&mut self, s: usize) { self.step = s; }

    pub fn harvest(&mut self) {
        let s0 = &self.disks[0].stats;
        let s1 = &self.disks[1].stats;
        self.rec.tick(s0.bytes + s1.bytes);
        self.rec.log_u64(s0.stores + s1.stores);
        self.rec.log_u64(s0.loads + s1.loads);
        if s0.loads + s1.loads > 0 {
            self.rec.probe("disk_loads");
        }
    }
}

pub fn execute(plan: &TriePlan, rec: &mut Recorder) -> Option<Violation> {
    let mut w = World::new(plan.knobs.focus, rec);
    let every = plan.knobs.check_every as usize;
    for (i, op) in plan.ops.iter().enumerate() {
        w.set_step(i);
        match w.apply(op) {
            Ok(()) => {}
            Err(Stop::Violation(v)) => return Some(v),
            Err(Stop::OutOfFocus) => {
                w.rec.probe("out_of_focus_divergence");
                return None;
            }
        }
        if every != 0 && (i + 1) % every == 0 {
            match w.periodic(op) {
                Ok(()) => {}
                Err(Stop::Violation(v)) => return Some(v),
                Err(Stop::OutOfFocus) => {
                    w.rec.probe("out_of_focus_divergence");
                    return None;
                }
            }
        }
    }
    w.set_step(plan.ops.len());
    let r = w.finish();
    w.harvest();
    match r {
        Ok(()) => None,
        Err(Stop::Violation(v)) => Some(v),
        Err(Stop::OutOfFocus) => {
            w.rec.probe("out_of_focus_divergence");
            None
        }
    }
}
