//! "Data written by the pinned version": disk images, serialised states and
//! hashes produced once from the reference tree and committed under
//! /verif/golden. A restart of a *later* build on that data must load the same
//! contents and hash, and storing the same contents must produce the same
//! bytes (a silent change of the stored format or of the hashed bytes stays
//! self-consistent inside one build - this is the check that sees it).
use crate::{disk::SimDisk, model};
use concordium_smart_contract_engine::v1::trie::{Loadable, PersistentState, Reference};
use serde::{Deserialize, Serialize};
use simcore::{hexser, Recorder, Rng, Scenario, Tier, Violation};

#[derive(Clone, Debug, Serialize, Deserialize)]
pub struct GoldenCase {
    #[serde(with = "hexser::pairs")]
    pub kvs:        Vec<(Vec<u8>, Vec<u8>)>,
    #[serde(with = "hexser::bytes")]
    pub disk:       Vec<u8>,
    pub root_ref:   u64,
    #[serde(with = "hexser::bytes")]
    pub serialized: Vec<u8>,
    #[serde(with = "hexser::bytes")]
    pub hash:       Vec<u8>,
}

fn case_kvs(rng: &mut Rng, i: usize) -> Vec<(Vec<u8>, Vec<u8>)> {
    let mut kg = crate::plan::KeyGen::new(rng);
    let mut vg = crate::plan::ValGen::new();
    let n = match i % 6 {
        0 => 0,
        1 => 1,
        2 => 2,
        _ => rng.urange(3, 24),
    };
    let mut kvs: Vec<(Vec<u8>, Vec<u8>)> = (0..n).map(|_| (kg.key(rng), vg.val(rng))).collect();
    if i % 5 == 3 {
        // stems around the 63-nibble inline limit and values around the 64-byte inline limit
        for l in [31usize, 32, 33] {
            kvs.push((vec![0x12; l], vec![7u8; 64]));
            kvs.push((vec![0x13; l], vec![8u8; 65]));
        }
    }
    kvs
}

/// Produce the golden cases from the current build (run once, on the reference tree).
pub fn make() -> Vec<GoldenCase> {
    let mut out = Vec::new();
    let mut rng = Rng::new(0x601D);
    for i in 0..48 {
        let kvs = case_kvs(&mut rng, i);
        let mut ps = PersistentState::from_iterator(kvs.iter().map(|(k, v)| (&k[..], v.clone())));
        let mut d = SimDisk::new();
        let r = ps.store_update(&mut d).expect("store");
        let mut ser = Vec::new();
        ps.serialize(&mut d, &mut ser).expect("serialize");
        let h = ps.hash(&mut d);
        let hb: &[u8] = h.as_ref();
        out.push(GoldenCase {
            kvs,
            disk: d.data.clone(),
            root_ref: u64::from(r),
            serialized: ser,
            hash: hb.to_vec(),
        });
    }
    out
}

pub struct GoldenScenario {
    pub cases: Vec<GoldenCase>,
}

#[derive(Clone, Debug, Serialize, Deserialize)]
pub struct GoldenPlan {
    pub case: usize,
    /// cache everything right after loading
    pub cache: bool,
}

fn v(sig: &str, detail: String) -> Option<Violation> { Some(Violation::new("old-data", sig, detail, 0)) }

impl Scenario for GoldenScenario {
    type Plan = GoldenPlan;

    fn name(&self) -> &'static str { "old-data" }

    fn generate(&self, rng: &mut Rng, _tier: Tier) -> GoldenPlan {
        GoldenPlan {
            case:  rng.usize_below(self.cases.len().max(1)),
            cache: rng.coin(),
        }
    }

    fn execute(&self, plan: &GoldenPlan, rec: &mut Recorder) -> Option<Violation> {
        let c = self.cases.get(plan.case)?;
        rec.op();
        rec.log_u64(plan.case as u64);
        rec.fault("restart_on_data_of_pinned_version");
        let mut m = model::Map::new();
        for (k, val) in &c.kvs {
            m.insert(k.clone(), val.clone());
        }
        let want: Vec<(Vec<u8>, Vec<u8>)> = m.iter().map(|(k, x)| (k.clone(), x.clone())).collect();
        // the committed hash is the reference construction's (guards the golden file itself)
        if c.hash[..] != model::reference_hash(&m) {
            return Some(Violation::new("harness", "harness/golden-hash", "golden hash differs from the reference construction", 0));
        }
        // 1. restart on the old disk image
        let mut d = SimDisk::new();
        d.data = c.disk.clone();
        d.sync();
        let mut loaded = match PersistentState::load_from_location(&mut d, Reference::from(c.root_ref)) {
            Ok(l) => l,
            Err(e) => return v("old-data/load", format!("a state stored by the pinned version cannot be loaded: {}", e)),
        };
        if plan.cache {
            loaded.cache(&mut d);
        }
        let all: Vec<(Vec<u8>, Vec<u8>)> = loaded.clone().into_iterator(&mut d).collect();
        if all != want {
            return v("old-data/contents", format!("a state stored by the pinned version loads with {} entries, it had {}", all.len(), want.len()));
        }
        let h = loaded.hash(&mut d);
        let hb: &[u8] = h.as_ref();
        if hb != &c.hash[..] {
            return v("old-data/hash", "a state stored by the pinned version loads with a different hash".into());
        }
        // 2. the old serialised form
        match PersistentState::deserialize(&mut &c.serialized[..]) {
            Ok(s) => {
                let all: Vec<(Vec<u8>, Vec<u8>)> = s.clone().into_iterator(&mut d).collect();
                let h = s.hash(&mut d);
                let hb: &[u8] = h.as_ref();
                if all != want || hb != &c.hash[..] {
                    return v("old-data/deserialize", "a state serialised by the pinned version deserialises to different contents or hash".into());
                }
            }
            Err(e) => return v("old-data/deserialize", format!("a state serialised by the pinned version cannot be deserialised: {}", e)),
        }
        // 3. the same contents stored / serialised / hashed now give the same bytes
        let mut fresh = PersistentState::from_iterator(c.kvs.iter().map(|(k, x)| (&k[..], x.clone())));
        let mut d2 = SimDisk::new();
        let h2 = fresh.hash(&mut d2);
        let hb2: &[u8] = h2.as_ref();
        if hb2 != &c.hash[..] {
            return v("old-data/hash-changed", "the hash of the same contents differs from the one computed by the pinned version".into());
        }
        match fresh.store_update(&mut d2) {
            Ok(r) => {
                if d2.data != c.disk || u64::from(r) != c.root_ref {
                    return v(
                        "old-data/stored-format-changed",
                        format!("storing the same contents writes {} bytes that differ from the {} bytes the pinned version wrote", d2.data.len(), c.disk.len()),
                    );
                }
            }
            Err(e) => return v("old-data/store", format!("{}", e)),
        }
        let mut ser = Vec::new();
        if fresh.serialize(&mut d2, &mut ser).is_err() || ser != c.serialized {
            return v("old-data/serialized-format-changed", "serialising the same contents gives bytes that differ from the pinned version's".into());
        }
        None
    }

    fn shrink(&self, _plan: &GoldenPlan) -> Vec<GoldenPlan> { Vec::new() }
}
