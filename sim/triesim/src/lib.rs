//! triesim: deterministic simulation of the contract-state trie (C03, C04,
//! C15 low level) over a fault-injecting simulated disk.
pub mod disk;
pub mod exec;
pub mod golden;
pub mod model;
pub mod plan;

use plan::{Focus, TriePlan};
use simcore::{driver::shrink_vec, Ctx, EngineInfo, Recorder, Rng, Scenario, Tier, Violation};

struct TrieScenario {
    name:   &'static str,
    focus:  Focus,
    faults: bool,
}

impl Scenario for TrieScenario {
    type Plan = TriePlan;

    fn name(&self) -> &'static str { self.name }

    fn generate(&self, rng: &mut Rng, tier: Tier) -> TriePlan { plan::generate(rng, tier, self.focus, self.faults) }

    fn execute(&self, plan: &TriePlan, rec: &mut Recorder) -> Option<Violation> { exec::execute(plan, rec) }

    fn shrink(&self, plan: &TriePlan) -> Vec<TriePlan> {
        let mut out: Vec<TriePlan> = shrink_vec(&plan.ops)
            .into_iter()
            .map(|ops| TriePlan {
                knobs: plan.knobs.clone(),
                ops,
            })
            .collect();
        // simplify single operations
        for (i, op) in plan.ops.iter().enumerate() {
            for simpler in plan::simplify(op) {
                let mut ops = plan.ops.clone();
                ops[i] = simpler;
                out.push(TriePlan {
                    knobs: plan.knobs.clone(),
                    ops,
                });
            }
        }
        if plan.knobs.check_every != 0 {
            let mut k = plan.knobs.clone();
            k.check_every = 0;
            out.push(TriePlan {
                knobs: k,
                ops:   plan.ops.clone(),
            });
        }
        out
    }
}

/// Runs the trie batches of property `prop` (C03, C04 or C15) and returns the
/// engine description for the evidence file.
pub fn run_trie_batches(ctx: &mut Ctx, prop: &str) -> EngineInfo {
    let (focus, rule, expl): (Focus, &str, &str) = match prop {
        "C03" => (
            Focus::Map,
            "seeded operation histories (insert/get/get_mut/set/delete/delete_prefix/iter/next/new generation/rollback/freeze/thaw, with store/load/cache/restart interleaved so that lazily loaded nodes are exercised) executed against the real trie and an ordered-map reference model; a run is non-trivial when a fault fired (budget exhaustion, crash) and distinct by the fingerprint of its event log",
            "C03: every step result, periodic and final full iteration of every generation, rolled-back generations and the persistent origin are compared with the model",
        ),
        "C04" => (
            Focus::Persist,
            "seeded histories over persistent roots (build, thaw/modify/freeze, store_update, load, cache, serialize/deserialize, migrate, clone, crash+restart) on a fault-injecting simulated disk; hash compared with an independent reference Merkle construction; non-trivial = at least one fault fired, distinct by event-log fingerprint",
            "C04: hash = reference Merkle hash of the model at every checkpoint, durable roots load after any crash, round trips preserve contents/hash/bytes, refreeze of an unmodified state collects 0",
        ),
        "C15" => (
            Focus::Locks,
            "seeded histories with 1-8 simultaneously live iterators on equal, nested and disjoint prefixes interleaved with modifications inside/outside the locked regions, handle use and generations; non-trivial = a fault fired (budget exhaustion, crash), distinct by event-log fingerprint",
            "C15 (low level): lock refusals exactly as the reference lock rule, state unchanged after a refusal, iterator yields exactly the entries captured at creation, delete_iter releases one reference, stale handles read None",
        ),
        other => {
            eprintln!("triesim does not serve property {}", other);
            std::process::exit(2);
        }
    };
    let clean = TrieScenario {
        name: "faultfree",
        focus,
        faults: false,
    };
    let faulty = TrieScenario {
        name: "faults",
        focus,
        faults: true,
    };
    let (nq, nt) = match focus {
        Focus::Map => (1_200_000, 30_000_000),
        Focus::Persist => (800_000, 20_000_000),
        Focus::Locks => (1_200_000, 30_000_000),
    };
    let n = ctx.count(nq, nt);
    ctx.run_batch(&clean, n);
    let n = ctx.count(nq, nt);
    ctx.run_batch(&faulty, n);
    if focus == Focus::Persist {
        // restart on data written by the pinned version
        let path = ctx.root.join("golden").join("trie_v1.json");
        match std::fs::read_to_string(&path).ok().and_then(|t| serde_json::from_str::<Vec<golden::GoldenCase>>(&t).ok()) {
            Some(cases) if !cases.is_empty() => {
                let n = ctx.count(400, 4000);
                ctx.run_batch(&golden::GoldenScenario { cases }, n);
            }
            _ => ctx.harness_error(format!("cannot read {}", path.display())),
        }
    }
    EngineInfo {
        rule: rule.to_string(),
        explanation: expl.to_string(),
        time_unit: "operations + bytes written to the simulated disk (the code under test has no clock)",
        state_measure: "distinct canonical-tree shapes (reference radix tree with values erased) seen at hash checkpoints",
        fault_kinds: &[
            "budget_exhausted",
            "crash",
            "crash_lost_unsynced_bytes",
            "crash_torn_tail",
            "store_err_before",
            "store_err_after_lost_ack",
            "root_record_writer_fault",
            "serialize_writer_fault",
            "deserialize_reader_fault",
            "migrate_store_err",
            "short_write",
            "write_eintr",
            "short_read",
            "read_eintr",
        ],
        probe_names: &[
            "op_on_lazy_root",
            "thaw_of_lazy_root",
            "cache_of_lazy_root",
            "loadback",
            "restart_reloaded",
            "migrated",
            "freeze",
            "refreeze_unmodified",
            "new_generation",
            "rollback",
            "rollback_unobserved",
            "get_mut_refused_generation_kept",
            "refused_by_lock",
            "concurrent_iterators",
            "stale_handle_used",
            "disk_loads",
            "out_of_focus_divergence",
            "shipped_pair",
        ],
        real: vec![
            "concordium-smart-contract-engine v1::trie (low_level.rs, api.rs, types.rs) compiled from /repo's working tree",
            "sha2",
        ],
        stub: vec!["slab (safe re-implementation, used by PrefixesMap)", "backing store = SimDisk (in /verif)"],
        assumptions: vec![
            "load_raw failures and corrupted stored bytes are not injected (CachedRef::get documents a panic there)".into(),
            "handles and iterators are used only in the generation that produced them (the discipline InstanceState enforces)".into(),
            "after a budget (counter) error the generation is discarded, as the engine does on out-of-energy".into(),
        ],
    }
}
