//! triesim binary: C03, C04 (C15 is driven by chainsim, which adds the
//! contract-visible half to the same evidence file).
use simcore::Ctx;

fn main() {
    let mut ctx = Ctx::from_args("triesim");
    let prop = ctx.property.clone();
    let info = triesim::run_trie_batches(&mut ctx, &prop);
    ctx.finish(info);
}
