//! triesim binary: C03, C04 (C15 is driven by chainsim, which adds the
//! contract-visible half to the same evidence file).
use simcore::Ctx;

fn main() {
    if std::env::args().any(|a| a == "--make-golden") {
        // one-off: write the golden data of the current (reference) build to stdout
        println!("{}", serde_json::to_string(&triesim::golden::make()).unwrap());
        return;
    }
    let mut ctx = Ctx::from_args("triesim");
    let prop = ctx.property.clone();
    let info = triesim::run_trie_batches(&mut ctx, &prop);
    ctx.finish(info);
}
