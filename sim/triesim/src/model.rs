//! Reference models, independent of the code under test:
//! * ordered byte-string map with prefix queries and the lock rules;
//! * reference Merkle hash over the canonical path-compressed radix-16 tree.
//!
//! The hash construction is frozen here (constants and byte orders are this
//! file's own), so a change of the hashed bytes in /repo is a disagreement.
use sha2::{Digest, Sha256};
use std::collections::BTreeMap;

pub type Key = Vec<u8>;
pub type Val = Vec<u8>;
pub type Map = BTreeMap<Key, Val>;

pub fn keys_with_prefix<V>(m: &BTreeMap<Key, V>, prefix: &[u8]) -> Vec<Key> {
    m.range(prefix.to_vec()..).take_while(|(k, _)| k.starts_with(prefix)).map(|(k, _)| k.clone()).collect()
}

/// `insert` / `delete` are refused iff some locked prefix is a prefix of `key`.
pub fn locked_for_key(locks: &[Key], key: &[u8]) -> bool { locks.iter().any(|l| key.starts_with(l)) }

/// `delete_prefix` is refused iff a lock is a prefix of `key` or `key` is a
/// prefix of a lock.
pub fn locked_for_prefix(locks: &[Key], key: &[u8]) -> bool {
    locks.iter().any(|l| key.starts_with(l) || l.starts_with(key))
}

fn nibbles(k: &[u8]) -> Vec<u8> {
    let mut v = Vec::with_capacity(k.len() * 2);
    for b in k {
        v.push(b >> 4);
        v.push(b & 0x0f);
    }
    v
}

fn pack(n: &[u8]) -> Vec<u8> {
    let mut out = Vec::with_capacity(n.len().div_ceil(2));
    let mut i = 0;
    while i < n.len() {
        let hi = n[i] << 4;
        let lo = if i + 1 < n.len() { n[i + 1] } else { 0 };
        out.push(hi | lo);
        i += 2;
    }
    out
}

pub fn hash_value(v: &[u8]) -> [u8; 32] {
    let mut h = Sha256::new();
    h.update((v.len() as u64).to_be_bytes());
    h.update(v);
    h.finalize().into()
}

pub const EMPTY_STATE_PREIMAGE: &[u8] = b"empty contract state";

/// Shape statistics of the canonical tree, for the distinct-state measure.
#[derive(Default)]
pub struct Shape {
    pub sig: u64,
}

impl Shape {
    fn mix(&mut self, x: u64) {
        self.sig ^= x;
        self.sig = self.sig.wrapping_mul(0x0000_0100_0000_01B3).rotate_left(5);
    }
}

/// Hash of the node covering `items[lo..hi]` (sorted nibble keys) from nibble
/// depth `d` (exclusive of the branch nibble already consumed by the parent).
fn build(items: &[(Vec<u8>, &Val)], d: usize, shape: &mut Shape) -> [u8; 32] {
    // longest common prefix from depth d
    let first = &items[0].0;
    let last = &items[items.len() - 1].0;
    let mut l = d;
    while l < first.len() && l < last.len() && first[l] == last[l] {
        l += 1;
    }
    // since items are sorted, lcp(first, last) is the lcp of all.
    let stem = &first[d..l];
    let mut h = Sha256::new();
    let mut rest = items;
    let has_value = first.len() == l;
    if has_value {
        h.update([1u8]);
        h.update(hash_value(items[0].1));
        rest = &items[1..];
    } else {
        h.update([0u8]);
    }
    h.update((stem.len() as u64).to_le_bytes());
    h.update(pack(stem));
    // group children by nibble at position l
    let mut groups: Vec<(u8, usize, usize)> = Vec::new();
    let mut i = 0;
    while i < rest.len() {
        let nb = rest[i].0[l];
        let mut j = i + 1;
        while j < rest.len() && rest[j].0[l] == nb {
            j += 1;
        }
        groups.push((nb, i, j));
        i = j;
    }
    shape.mix(((stem.len() as u64) << 8) | ((has_value as u64) << 5) | groups.len() as u64);
    let mut ch = Sha256::new();
    ch.update((groups.len() as u16).to_be_bytes());
    for (nb, i, j) in groups {
        ch.update([nb]);
        ch.update(build(&rest[i..j], l + 1, shape));
    }
    h.update(ch.finalize());
    h.finalize().into()
}

/// The documented Merkle construction over the canonical compressed radix
/// tree of `m`; also returns a shape signature (values erased).
pub fn reference_hash_and_shape(m: &Map) -> ([u8; 32], u64) {
    if m.is_empty() {
        return (Sha256::digest(EMPTY_STATE_PREIMAGE).into(), 0);
    }
    let items: Vec<(Vec<u8>, &Val)> = m.iter().map(|(k, v)| (nibbles(k), v)).collect();
    let mut shape = Shape::default();
    let h = build(&items, 0, &mut shape);
    (h, shape.sig)
}

pub fn reference_hash(m: &Map) -> [u8; 32] { reference_hash_and_shape(m).0 }

#[cfg(test)]
mod tests {
    use super::*;
    #[test]
    fn single_key() {
        // one key 0x12 -> value "a": node with value, stem [1,2], no children.
        let mut m = Map::new();
        m.insert(vec![0x12], b"a".to_vec());
        let mut h = Sha256::new();
        h.update([1u8]);
        h.update(hash_value(b"a"));
        h.update(2u64.to_le_bytes());
        h.update([0x12]);
        let mut ch = Sha256::new();
        ch.update(0u16.to_be_bytes());
        h.update(ch.finalize());
        let expect: [u8; 32] = h.finalize().into();
        assert_eq!(reference_hash(&m), expect);
    }
}
