//! Plans (operation histories with faults) for triesim and their generator.
//! A plan is a value: the executor never draws randomness, the replay file is
//! the plan itself.
use crate::disk::StoreFault;
use serde::{Deserialize, Serialize};
use simcore::{
    faultio::{ReadPlan, WritePlan},
    hexser, Rng, Tier,
};

pub const NROOTS: usize = 4;
pub const NMUTS: usize = 3;

#[derive(Clone, Debug, Serialize, Deserialize, PartialEq)]
pub enum MutWrite {
    /// Overwrite bytes starting at offset (clamped to the value length).
    Write {
        off:  u32,
        #[serde(with = "hexser::bytes")]
        data: Vec<u8>,
    },
    /// Resize to the given length, filling with zeros.
    Resize { len: u32 },
    /// Obtain the mutable reference and do nothing with it.
    Touch,
}

#[derive(Clone, Debug, Serialize, Deserialize, PartialEq)]
pub enum Op {
    // ---- persistent roots -------------------------------------------------
    FromIter {
        dst: usize,
        #[serde(with = "hexser::pairs")]
        kvs: Vec<(Vec<u8>, Vec<u8>)>,
    },
    Lookup {
        root: usize,
        #[serde(with = "hexser::bytes")]
        key:  Vec<u8>,
    },
    IterAll { root: usize },
    Hash { root: usize },
    Cache { root: usize },
    StoreUpdate {
        root:  usize,
        sync:  bool,
        fault: Option<StoreFault>,
        /// Use `store_update_buf` with a fault-injecting writer for the root record.
        buf:   Option<WritePlan>,
    },
    /// Load the stored root again (uncached, `Disk` variant) into slot `dst`.
    LoadBack { root: usize, dst: usize },
    Serialize {
        root:  usize,
        dst:   usize,
        wplan: WritePlan,
        rplan: ReadPlan,
    },
    Migrate {
        root:  usize,
        dst:   usize,
        fault: Option<StoreFault>,
    },
    CloneRoot { root: usize, dst: usize },
    DropRoot { root: usize },
    Sync,
    /// Crash + restart: every in-memory object is dropped, the un-synced
    /// suffix of the disks is lost (or torn), durable roots are reloaded.
    Crash { torn_permille: Option<u32> },
    // ---- mutable states ---------------------------------------------------
    /// `low = false`: `PersistentState::thaw` (API level, `MutableState`);
    /// `low = true`: `into_trie` (bare `MutableTrie`, generations via hooks).
    Thaw { root: usize, dst: usize, low: bool },
    /// `MutableState::initial_state()` / `MutableTrie::empty()`.
    Fresh { dst: usize, low: bool },
    Freeze { m: usize, dst: usize, collect: bool },
    DropMut { m: usize },
    NewGen { m: usize },
    /// Drop the newest generation. `quiet`: the owner of the older generation does not look at its
    /// state afterwards (no lookup that would make it forget the abandoned generation) - the next
    /// operation meets the trie as the failed call left it.
    Rollback {
        m:     usize,
        #[serde(default)]
        quiet: bool,
    },
    Insert {
        m:   usize,
        #[serde(with = "hexser::bytes")]
        key: Vec<u8>,
        #[serde(with = "hexser::bytes")]
        val: Vec<u8>,
    },
    GetEntry {
        m:   usize,
        #[serde(with = "hexser::bytes")]
        key: Vec<u8>,
    },
    WithEntry { m: usize, h: usize },
    GetMut { m: usize, h: usize, w: MutWrite, budget: u64 },
    Set {
        m:   usize,
        h:   usize,
        #[serde(with = "hexser::bytes")]
        val: Vec<u8>,
    },
    Delete {
        m:   usize,
        #[serde(with = "hexser::bytes")]
        key: Vec<u8>,
    },
    DeletePrefix {
        m:      usize,
        #[serde(with = "hexser::bytes")]
        key:    Vec<u8>,
        budget: u64,
    },
    Iter {
        m:      usize,
        #[serde(with = "hexser::bytes")]
        prefix: Vec<u8>,
    },
    Next { m: usize, it: usize, budget: u64 },
    DeleteIter { m: usize, it: usize },
    /// Full comparison of the top generation with its model.
    CheckMut { m: usize },
    /// Round trip of the root's contents through one of the library's own
    /// store/load pairs (`Vec<u8>`+`Loader`, `Storer<Cursor<Vec<u8>>>`+`Loader`).
    ShippedPair { root: usize, storer: bool },
}

impl Op {
    pub fn kind(&self) -> &'static str {
        match self {
            Op::FromIter { .. } => "FromIter",
            Op::Lookup { .. } => "Lookup",
            Op::IterAll { .. } => "IterAll",
            Op::Hash { .. } => "Hash",
            Op::Cache { .. } => "Cache",
            Op::StoreUpdate { .. } => "StoreUpdate",
            Op::LoadBack { .. } => "LoadBack",
            Op::Serialize { .. } => "Serialize",
            Op::Migrate { .. } => "Migrate",
            Op::CloneRoot { .. } => "CloneRoot",
            Op::DropRoot { .. } => "DropRoot",
            Op::Sync => "Sync",
            Op::Crash { .. } => "Crash",
            Op::Thaw { .. } => "Thaw",
            Op::Fresh { .. } => "Fresh",
            Op::Freeze { .. } => "Freeze",
            Op::DropMut { .. } => "DropMut",
            Op::NewGen { .. } => "NewGen",
            Op::Rollback { .. } => "Rollback",
            Op::Insert { .. } => "Insert",
            Op::GetEntry { .. } => "GetEntry",
            Op::WithEntry { .. } => "WithEntry",
            Op::GetMut { .. } => "GetMut",
            Op::Set { .. } => "Set",
            Op::Delete { .. } => "Delete",
            Op::DeletePrefix { .. } => "DeletePrefix",
            Op::Iter { .. } => "Iter",
            Op::Next { .. } => "Next",
            Op::DeleteIter { .. } => "DeleteIter",
            Op::CheckMut { .. } => "CheckMut",
            Op::ShippedPair { .. } => "ShippedPair",
        }
    }
}

/// Which oracles gate (the others are still evaluated for the log but do not
/// produce violations) — one set per property.
#[derive(Clone, Copy, Debug, Serialize, Deserialize, PartialEq, Eq)]
pub enum Focus {
    /// C03: ordered-map semantics, generations, no leaks.
    Map,
    /// C04: hash canonical, persistence, round trips, collector, faults.
    Persist,
    /// C15 (low level): locks, iterators, handle validity.
    Locks,
}

#[derive(Clone, Debug, Serialize, Deserialize)]
pub struct Knobs {
    pub focus:       Focus,
    /// Full check of touched objects every n steps (0 = only at the end).
    pub check_every: u32,
    /// Cache a root right after LoadBack / restart with this probability (permille) — decided at generation time, recorded in ops.
    pub faults:      bool,
}

#[derive(Clone, Debug, Serialize, Deserialize)]
pub struct TriePlan {
    pub knobs: Knobs,
    pub ops:   Vec<Op>,
}

// ---------------------------------------------------------------------------
// Generator
// ---------------------------------------------------------------------------

const SYMBOLS: [u8; 12] = [0x00, 0x01, 0x10, 0x11, 0x12, 0x13, 0x1f, 0x20, 0x21, 0xf0, 0xff, 0xab];

pub struct KeyGen {
    symbols: Vec<u8>,
    max_len: usize,
    long:    bool,
    pool:    Vec<Vec<u8>>,
}

impl KeyGen {
    pub fn new(rng: &mut Rng) -> Self {
        let nsym = rng.urange(1, 4);
        let mut symbols = Vec::new();
        for _ in 0..nsym {
            symbols.push(*rng.pick(&SYMBOLS));
        }
        let max_len = rng.urange(1, 6);
        let long = rng.chance(1, 12);
        let mut kg = KeyGen {
            symbols,
            max_len,
            long,
            pool: Vec::new(),
        };
        let npool = rng.urange(3, 24);
        for _ in 0..npool {
            let k = kg.fresh(rng);
            kg.pool.push(k);
        }
        kg
    }

    pub fn fresh(&self, rng: &mut Rng) -> Vec<u8> {
        let len = if self.long && rng.chance(1, 4) {
            // cross the 63-nibble inline stem limit (31/32/33 bytes) now and then
            *rng.pick(&[30usize, 31, 32, 33, 40])
        } else {
            rng.urange(0, self.max_len)
        };
        (0..len).map(|_| *rng.pick(&self.symbols)).collect()
    }

    /// A key: mostly from the pool (so that hits, prefixes and re-inserts are
    /// frequent), sometimes a prefix or extension of a pool key, sometimes new.
    pub fn key(&mut self, rng: &mut Rng) -> Vec<u8> {
        match rng.below(10) {
            0..=5 => rng.pick(&self.pool).clone(),
            6 => {
                let k = rng.pick(&self.pool).clone();
                let l = rng.urange(0, k.len());
                k[..l].to_vec()
            }
            7 => {
                let mut k = rng.pick(&self.pool).clone();
                k.push(*rng.pick(&self.symbols));
                k
            }
            _ => {
                let k = self.fresh(rng);
                if self.pool.len() < 40 {
                    self.pool.push(k.clone());
                }
                k
            }
        }
    }

    pub fn prefix(&mut self, rng: &mut Rng) -> Vec<u8> {
        let k = self.key(rng);
        let l = match rng.below(4) {
            0 => 0,
            1 => k.len(),
            _ => rng.urange(0, k.len()),
        };
        k[..l].to_vec()
    }
}

pub struct ValGen {
    counter: u32,
}

impl ValGen {
    pub fn new() -> Self { ValGen { counter: 0 } }

    /// Unique value (tagged with a counter) whose length crosses the 64/65
    /// inline/indirect boundary often.
    pub fn val(&mut self, rng: &mut Rng) -> Vec<u8> {
        self.counter += 1;
        let len = match rng.below(12) {
            0 => 0,
            1 => 1,
            2 => 4,
            3 => 63,
            4 => 64,
            5 => 65,
            6 => 66,
            7 => rng.urange(100, 200),
            _ => rng.urange(2, 40),
        };
        let tag = self.counter.to_le_bytes();
        let mut v: Vec<u8> = Vec::with_capacity(len);
        for i in 0..len {
            v.push(if i < 3 { tag[i] } else { (i as u8) ^ tag[0] });
        }
        v
    }
}

fn budget(rng: &mut Rng) -> u64 {
    match rng.below(20) {
        0 => 0,
        1 => rng.range(1, 6),
        2 => rng.range(7, 40),
        _ => 1 << 40,
    }
}

fn store_fault(rng: &mut Rng, faults: bool) -> Option<StoreFault> {
    if !faults || !rng.chance(1, 3) {
        return None;
    }
    let k = match rng.below(4) {
        0 => 0,
        1 => 1,
        _ => rng.range(0, 12) as u32,
    };
    Some(if rng.coin() {
        StoreFault::ErrBefore { k }
    } else {
        StoreFault::ErrAfter { k }
    })
}

fn wplan(rng: &mut Rng, faults: bool) -> WritePlan {
    let mut p = if rng.coin() {
        WritePlan::random_chunking(rng, true)
    } else {
        WritePlan::clean()
    };
    if faults && rng.chance(1, 4) {
        let at = match rng.below(3) {
            0 => rng.range(0, 12),
            1 => rng.range(0, 80),
            _ => rng.range(0, 600),
        };
        if rng.coin() {
            p.full_at = Some(at)
        } else {
            p.err_at = Some(at)
        }
    }
    p
}

fn rplan(rng: &mut Rng, faults: bool) -> ReadPlan {
    let mut p = if rng.coin() {
        ReadPlan::random_chunking(rng, true)
    } else {
        ReadPlan::clean()
    };
    if faults && rng.chance(1, 5) {
        let at = match rng.below(3) {
            0 => rng.range(0, 12),
            1 => rng.range(0, 80),
            _ => rng.range(0, 600),
        };
        if rng.coin() {
            p.eof_at = Some(at)
        } else {
            p.err_at = Some(at)
        }
    }
    p
}

/// Shadow of the world kept by the generator so that most generated
/// operations are meaningful. It may drift (budget aborts, faults); the
/// executor skips operations that do not apply.
struct Shadow {
    roots:  [bool; NROOTS],
    stored: [bool; NROOTS],
    muts:   [Option<MutShadow>; NMUTS],
}

#[derive(Clone)]
struct MutShadow {
    gens:    usize,
    handles: Vec<usize>,
    iters:   Vec<usize>,
    low:     bool,
}

pub fn generate(rng: &mut Rng, tier: Tier, focus: Focus, faults: bool) -> TriePlan {
    let mut kg = KeyGen::new(rng);
    let mut vg = ValGen::new();
    let len = match (tier, rng.below(10)) {
        (_, 0..=2) => rng.urange(4, 20),
        (Tier::Quick, 3..=8) => rng.urange(20, 90),
        (Tier::Quick, _) => rng.urange(90, 200),
        (Tier::Thorough, 3..=6) => rng.urange(20, 120),
        (Tier::Thorough, _) => rng.urange(120, 300),
    };
    // swarm: per-run weights of operation groups
    let mut w_root_read = rng.range(0, 6) as u32;
    let mut w_persist = rng.range(0, 6) as u32;
    let mut w_crash = if rng.chance(1, 3) { 1 } else { 0 };
    let w_thawfreeze = rng.range(1, 6) as u32;
    let mut w_gen = rng.range(0, 5) as u32;
    let w_modify = rng.range(2, 12) as u32;
    let mut w_read = rng.range(1, 8) as u32;
    let mut w_iter = rng.range(0, 6) as u32;
    let w_check = rng.range(0, 2) as u32;
    match focus {
        Focus::Map => {
            w_gen += 2;
            w_read += 2;
        }
        Focus::Persist => {
            w_persist += 4;
            w_root_read += 2;
            w_crash = if rng.chance(2, 3) { 1 } else { 0 };
        }
        Focus::Locks => {
            w_iter += 6;
            w_persist /= 2;
        }
    }
    let low_bias = rng.range(0, 4); // probability (in quarters) that a thaw is low-level
    let knobs = Knobs {
        focus,
        check_every: *rng.pick(&[0u32, 0, 8, 16, 3]),
        faults,
    };
    let mut sh = Shadow {
        roots:  [false; NROOTS],
        stored: [false; NROOTS],
        muts:   Default::default(),
    };
    let mut ops = Vec::with_capacity(len);
    // start with something to work on
    {
        let n = rng.urange(0, 12);
        let kvs = (0..n).map(|_| (kg.key(rng), vg.val(rng))).collect();
        ops.push(Op::FromIter { dst: 0, kvs });
        sh.roots[0] = true;
    }
    while ops.len() < len {
        let groups = [w_root_read, w_persist, w_crash, w_thawfreeze, w_gen, w_modify, w_read, w_iter, w_check];
        let g = rng.weighted(&groups);
        let live_roots: Vec<usize> = (0..NROOTS).filter(|i| sh.roots[*i]).collect();
        let live_muts: Vec<usize> = (0..NMUTS).filter(|i| sh.muts[*i].is_some()).collect();
        match g {
            0 => {
                // root reads
                if live_roots.is_empty() {
                    continue;
                }
                let root = *rng.pick(&live_roots);
                ops.push(match rng.below(if focus == Focus::Persist { 5 } else { 4 }) {
                    0 => Op::IterAll { root },
                    1 => Op::Hash { root },
                    4 => Op::ShippedPair {
                        root,
                        // the Storer pair is a known finding (KF-C04-1); keep it rare so that
                        // it does not cut most histories short
                        storer: rng.chance(1, 60),
                    },
                    _ => Op::Lookup {
                        root,
                        key: kg.key(rng),
                    },
                });
            }
            1 => {
                // persistence operations
                if live_roots.is_empty() {
                    continue;
                }
                let root = *rng.pick(&live_roots);
                let dst = rng.usize_below(NROOTS);
                match rng.below(12) {
                    0..=3 => {
                        let sync = rng.chance(2, 3);
                        let fault = store_fault(rng, faults);
                        let buf = if rng.chance(1, 3) { Some(wplan(rng, faults)) } else { None };
                        ops.push(Op::StoreUpdate { root, sync, fault, buf });
                        sh.stored[root] = true;
                    }
                    4..=5 => {
                        if sh.stored[root] {
                            ops.push(Op::LoadBack { root, dst });
                            sh.roots[dst] = true;
                            sh.stored[dst] = true;
                        }
                    }
                    6 => ops.push(Op::Cache { root }),
                    7..=8 => {
                        ops.push(Op::Serialize {
                            root,
                            dst,
                            wplan: wplan(rng, faults),
                            rplan: rplan(rng, faults),
                        });
                        sh.roots[dst] = true;
                        sh.stored[dst] = false;
                    }
                    9 => {
                        ops.push(Op::Migrate {
                            root,
                            dst,
                            fault: store_fault(rng, faults),
                        });
                        sh.roots[dst] = true;
                        sh.stored[dst] = false;
                    }
                    10 => {
                        ops.push(Op::CloneRoot { root, dst });
                        sh.roots[dst] = true;
                        sh.stored[dst] = sh.stored[root];
                    }
                    _ => {
                        if rng.coin() {
                            ops.push(Op::Sync)
                        } else if live_roots.len() > 1 {
                            ops.push(Op::DropRoot { root });
                            sh.roots[root] = false;
                        }
                    }
                }
            }
            2 => {
                ops.push(Op::Crash {
                    torn_permille: if faults && rng.coin() { Some(rng.range(0, 1000) as u32) } else { None },
                });
                for m in sh.muts.iter_mut() {
                    *m = None;
                }
                // roots: the executor reloads the durable ones into their slots
            }
            3 => {
                // thaw / fresh / freeze / drop
                match rng.below(10) {
                    0..=4 => {
                        let dst = rng.usize_below(NMUTS);
                        let low = rng.below(4) < low_bias;
                        if live_roots.is_empty() || rng.chance(1, 10) {
                            ops.push(Op::Fresh { dst, low });
                        } else {
                            ops.push(Op::Thaw {
                                root: *rng.pick(&live_roots),
                                dst,
                                low,
                            });
                        }
                        sh.muts[dst] = Some(MutShadow {
                            gens: 1,
                            handles: vec![0],
                            iters: vec![0],
                            low,
                        });
                    }
                    5..=8 => {
                        if live_muts.is_empty() {
                            continue;
                        }
                        let m = *rng.pick(&live_muts);
                        let dst = rng.usize_below(NROOTS);
                        ops.push(Op::Freeze {
                            m,
                            dst,
                            collect: rng.coin(),
                        });
                        sh.roots[dst] = true;
                        sh.stored[dst] = false;
                        let low = sh.muts[m].as_ref().map_or(false, |x| x.low);
                        if low {
                            sh.muts[m] = None;
                        } else {
                            sh.muts[m] = Some(MutShadow {
                                gens: 1,
                                handles: vec![0],
                                iters: vec![0],
                                low,
                            });
                        }
                    }
                    _ => {
                        if live_muts.is_empty() {
                            continue;
                        }
                        let m = *rng.pick(&live_muts);
                        ops.push(Op::DropMut { m });
                        sh.muts[m] = None;
                    }
                }
            }
            4 => {
                if live_muts.is_empty() {
                    continue;
                }
                let m = *rng.pick(&live_muts);
                let ms = sh.muts[m].as_mut().unwrap();
                if ms.gens > 1 && (rng.coin() || ms.gens >= 5) {
                    let quiet = rng.chance(2, 5);
                    ops.push(Op::Rollback { m, quiet });
                    ms.gens -= 1;
                    ms.handles.pop();
                    ms.iters.pop();
                    if quiet && rng.chance(2, 3) {
                        // the very next thing: another call on the same state, or the end of the transaction
                        if rng.chance(2, 3) {
                            ops.push(Op::NewGen { m });
                            ms.gens += 1;
                            ms.handles.push(0);
                            ms.iters.push(0);
                        } else {
                            let dst = rng.usize_below(NROOTS);
                            ops.push(Op::Freeze {
                                m,
                                dst,
                                collect: rng.coin(),
                            });
                            sh.roots[dst] = true;
                            sh.stored[dst] = false;
                            let low = sh.muts[m].as_ref().map_or(false, |x| x.low);
                            if low {
                                sh.muts[m] = None;
                            } else {
                                sh.muts[m] = Some(MutShadow {
                                    gens: 1,
                                    handles: vec![0],
                                    iters: vec![0],
                                    low,
                                });
                            }
                        }
                    }
                } else {
                    ops.push(Op::NewGen { m });
                    ms.gens += 1;
                    ms.handles.push(0);
                    ms.iters.push(0);
                }
            }
            5 => {
                if live_muts.is_empty() {
                    continue;
                }
                let m = *rng.pick(&live_muts);
                let ms = sh.muts[m].as_mut().unwrap();
                let nh = *ms.handles.last().unwrap();
                match rng.below(12) {
                    0..=4 => {
                        ops.push(Op::Insert {
                            m,
                            key: kg.key(rng),
                            val: vg.val(rng),
                        });
                        *ms.handles.last_mut().unwrap() += 1;
                    }
                    5..=6 => ops.push(Op::Delete { m, key: kg.key(rng) }),
                    7 => ops.push(Op::DeletePrefix {
                        m,
                        key: kg.prefix(rng),
                        budget: budget(rng),
                    }),
                    8..=9 if nh > 0 => ops.push(Op::Set {
                        m,
                        h: rng.usize_below(nh),
                        val: vg.val(rng),
                    }),
                    10..=11 if nh > 0 => {
                        let w = match rng.below(4) {
                            0 => MutWrite::Touch,
                            1 => MutWrite::Resize {
                                len: *rng.pick(&[0u32, 1, 63, 64, 65, 100]),
                            },
                            _ => MutWrite::Write {
                                off:  rng.range(0, 70) as u32,
                                data: vg.val(rng),
                            },
                        };
                        ops.push(Op::GetMut {
                            m,
                            h: rng.usize_below(nh),
                            w,
                            budget: budget(rng),
                        });
                    }
                    _ => {
                        ops.push(Op::GetEntry { m, key: kg.key(rng) });
                        *ms.handles.last_mut().unwrap() += 1;
                    }
                }
            }
            6 => {
                if live_muts.is_empty() {
                    continue;
                }
                let m = *rng.pick(&live_muts);
                let ms = sh.muts[m].as_mut().unwrap();
                let nh = *ms.handles.last().unwrap();
                if nh > 0 && rng.coin() {
                    ops.push(Op::WithEntry {
                        m,
                        h: rng.usize_below(nh),
                    });
                } else {
                    ops.push(Op::GetEntry { m, key: kg.key(rng) });
                    *ms.handles.last_mut().unwrap() += 1;
                }
            }
            7 => {
                if live_muts.is_empty() {
                    continue;
                }
                let m = *rng.pick(&live_muts);
                let ms = sh.muts[m].as_mut().unwrap();
                let ni = *ms.iters.last().unwrap();
                match rng.below(10) {
                    0..=2 => {
                        ops.push(Op::Iter {
                            m,
                            prefix: kg.prefix(rng),
                        });
                        *ms.iters.last_mut().unwrap() += 1;
                    }
                    3..=7 if ni > 0 => ops.push(Op::Next {
                        m,
                        it: rng.usize_below(ni),
                        budget: budget(rng),
                    }),
                    8 if ni > 0 => ops.push(Op::DeleteIter {
                        m,
                        it: rng.usize_below(ni),
                    }),
                    _ => {
                        // a modification aimed at (or near) a locked region
                        let key = kg.key(rng);
                        ops.push(match rng.below(3) {
                            0 => Op::Insert { m, key, val: vg.val(rng) },
                            1 => Op::Delete { m, key },
                            _ => Op::DeletePrefix {
                                m,
                                key,
                                budget: 1 << 40,
                            },
                        });
                    }
                }
            }
            _ => {
                if live_muts.is_empty() {
                    continue;
                }
                ops.push(Op::CheckMut {
                    m: *rng.pick(&live_muts),
                });
            }
        }
    }
    TriePlan { knobs, ops }
}

/// Simpler variants of one operation (for minimisation).
pub fn simplify(op: &Op) -> Vec<Op> {
    let mut out = Vec::new();
    let shorter = |v: &Vec<u8>| -> Vec<Vec<u8>> {
        let mut r = Vec::new();
        if v.len() > 8 {
            r.push(v[..8].to_vec());
        }
        if v.len() > 1 {
            r.push(v[..1].to_vec());
        }
        if !v.is_empty() {
            r.push(Vec::new());
        }
        r
    };
    match op {
        Op::FromIter { dst, kvs } => {
            for kv in simcore::driver::shrink_vec(kvs) {
                out.push(Op::FromIter { dst: *dst, kvs: kv });
            }
            for (i, (_, v)) in kvs.iter().enumerate() {
                for sv in shorter(v) {
                    let mut k2 = kvs.clone();
                    k2[i].1 = sv;
                    out.push(Op::FromIter { dst: *dst, kvs: k2 });
                }
            }
        }
        Op::Insert { m, key, val } => {
            for sv in shorter(val) {
                out.push(Op::Insert {
                    m:   *m,
                    key: key.clone(),
                    val: sv,
                });
            }
        }
        Op::Set { m, h, val } => {
            for sv in shorter(val) {
                out.push(Op::Set { m: *m, h: *h, val: sv });
            }
        }
        Op::StoreUpdate { root, sync, fault, buf } => {
            if fault.is_some() {
                out.push(Op::StoreUpdate {
                    root:  *root,
                    sync:  *sync,
                    fault: None,
                    buf:   buf.clone(),
                });
            }
            if buf.is_some() {
                out.push(Op::StoreUpdate {
                    root:  *root,
                    sync:  *sync,
                    fault: *fault,
                    buf:   None,
                });
            }
        }
        Op::Serialize { root, dst, wplan, rplan } => {
            if *wplan != WritePlan::clean() {
                out.push(Op::Serialize {
                    root:  *root,
                    dst:   *dst,
                    wplan: WritePlan::clean(),
                    rplan: rplan.clone(),
                });
            }
            if *rplan != ReadPlan::clean() {
                out.push(Op::Serialize {
                    root:  *root,
                    dst:   *dst,
                    wplan: wplan.clone(),
                    rplan: ReadPlan::clean(),
                });
            }
        }
        Op::Crash { torn_permille: Some(_) } => out.push(Op::Crash { torn_permille: None }),
        Op::Migrate { root, dst, fault: Some(_) } => out.push(Op::Migrate {
            root:  *root,
            dst:   *dst,
            fault: None,
        }),
        Op::GetMut { m, h, w, budget } if *w != MutWrite::Touch => out.push(Op::GetMut {
            m:      *m,
            h:      *h,
            w:      MutWrite::Touch,
            budget: *budget,
        }),
        _ => {}
    }
    out
}
